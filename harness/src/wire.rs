//! C11: the TIR wire format (see spec/Wire.tla).

use crate::aj::*;
use crate::ctx;
use crate::guarded;
use crate::staging;
use crate::tirj;
use serde_json::{json, Value};
use tx3_tir::encoding::{self, AnyTir, TirVersion};
use tx3_tir::model::v1beta0 as tir;
use tx3_tir::reduce::{self, Apply as _};

fn names<T>(m: &std::collections::BTreeMap<String, T>) -> Vec<String> {
    m.keys().cloned().collect()
}

fn param_types(t: &tir::Tx) -> Vec<Value> {
    reduce::find_params(t).iter().map(|(k, ty)| json!([k, tirj::type_to(ty)])).collect()
}

fn apply_all(t: tir::Tx, env: &Value) -> Value {
    let args = tirj::args_from(&env["args"]);
    let inputs = staging::inputs_from(&env["inputs"]);
    let fee = int_from(&env["fee"]) as u64;
    let r = guarded(|| -> Result<tir::Tx, String> {
        let t = reduce::apply_args(t, &args).map_err(|e| ctx::err_kind2(&e))?;
        let t = reduce::apply_inputs(t, &inputs).map_err(|e| ctx::err_kind2(&e))?;
        let t = reduce::apply_fees(t, fee).map_err(|e| ctx::err_kind2(&e))?;
        reduce::reduce(t).map_err(|e| ctx::err_kind2(&e))
    });
    match r {
        Ok(Ok(t)) => json!({"outcome": "ok", "values": staging::tx_values(&t)}),
        Ok(Err(k)) => json!({"outcome": "err", "kind": k, "values": []}),
        Err(p) => json!({"outcome": "panic", "site": p["file"], "msg": p["msg"], "values": []}),
    }
}

fn decode_outcome(bytes: &[u8], version: &str) -> (String, Option<tir::Tx>, Value) {
    let r = guarded(|| {
        let v = TirVersion::try_from(version);
        match v {
            Err(encoding::Error::UnknownTirVersion(_)) => ("unknown".to_string(), None),
            Err(_) => ("err".to_string(), None),
            Ok(v) => match encoding::from_bytes(bytes, v) {
                Ok(AnyTir::V1Beta0(t)) => ("ok".to_string(), Some(t)),
                Err(encoding::Error::DeprecatedTirVersion(_)) => ("deprecated".to_string(), None),
                Err(encoding::Error::UnknownTirVersion(_)) => ("unknown".to_string(), None),
                Err(_) => ("err".to_string(), None),
            },
        }
    });
    match r {
        Ok((o, t)) => (o, t, Value::Null),
        Err(p) => ("panic".to_string(), None, p),
    }
}

/// Offsets and header lengths of every byte string, text, array and map header of a CBOR item (nested ones
/// included), found with the driver's own reader.
fn headers(bytes: &[u8]) -> Vec<(usize, usize, u8)> {
    fn walk(it: &crate::cbor::Item, bytes: &[u8], out: &mut Vec<(usize, usize, u8)>) {
        use crate::cbor::Cbor;
        let first = bytes[it.start];
        let hlen = match first & 0x1f { 24 => 2, 25 => 3, 26 => 5, 27 => 9, _ => 1 };
        match &it.v {
            Cbor::Bytes(_, indef) => { if !indef { out.push((it.start, hlen, 2)); } }
            Cbor::Text(_) => { if first & 0x1f != 31 { out.push((it.start, hlen, 3)); } }
            Cbor::Array(a, indef) => {
                if !indef { out.push((it.start, hlen, 4)); }
                for x in a { walk(x, bytes, out); }
            }
            Cbor::Map(m, indef) => {
                if !indef { out.push((it.start, hlen, 5)); }
                for (k, v) in m { walk(k, bytes, out); walk(v, bytes, out); }
            }
            Cbor::Tag(_, inner) => walk(inner, bytes, out),
            _ => {}
        }
    }
    let mut out = vec![];
    if let Ok(it) = crate::cbor::parse(bytes) {
        walk(&it, bytes, &mut out);
    }
    out
}

/// the n-th header rewritten to its 8-byte form announcing `count` elements / bytes
fn inflate(bytes: &[u8], nth: usize, count: u64) -> Vec<u8> {
    let hs = headers(bytes);
    if hs.is_empty() {
        return bytes.to_vec();
    }
    let (start, hlen, major) = hs[nth % hs.len()];
    let mut b = bytes[..start].to_vec();
    b.push((major << 5) | 27);
    b.extend(count.to_be_bytes());
    b.extend(&bytes[start + hlen..]);
    b
}

fn mutate(bytes: &[u8], m: &Value) -> Vec<u8> {
    let mut b = bytes.to_vec();
    match str_of(&m["kind"]) {
        "flip" => {
            if !b.is_empty() {
                let bit = (m["pos"].as_u64().unwrap_or(0) as usize) % (b.len() * 8);
                b[bit / 8] ^= 1 << (bit % 8);
            }
        }
        "trunc" => {
            let n = (m["len"].as_u64().unwrap_or(0) as usize).min(b.len());
            b.truncate(n);
        }
        "splice" => {
            let at = (m["at"].as_u64().unwrap_or(0) as usize).min(b.len());
            let ins = bytes_from(&m["bytes"]);
            let del = (m["del"].as_u64().unwrap_or(0) as usize).min(b.len() - at);
            b.splice(at..at + del, ins);
        }
        "raw" => b = bytes_from(&m["bytes"]),
        "inflate" => b = inflate(bytes, m["nth"].as_u64().unwrap_or(0) as usize, m["count"].as_u64().unwrap_or(u64::MAX)),
        "nest" => {
            let depth = m["depth"].as_u64().unwrap_or(1000) as usize;
            let byte = m["byte"].as_u64().unwrap_or(0x81) as u8;
            b = vec![byte; depth];
            b.extend(bytes_from(&m["tail"]));
        }
        "nest2" => {
            // repeated multi-byte prefix, e.g. a tag followed by an array header
            let depth = m["depth"].as_u64().unwrap_or(1000) as usize;
            let unit = bytes_from(&m["unit"]);
            b = Vec::with_capacity(depth * unit.len() + 4);
            for _ in 0..depth {
                b.extend(&unit);
            }
            b.extend(bytes_from(&m["tail"]));
        }
        other => panic!("driver: unknown mutation {other}"),
    }
    b
}

pub fn run(case: &Value) -> Value {
    let built = tirj::build_tx(&case["tx"]);
    let mut events = vec![];
    let (bytes, version) = encoding::to_bytes(&built);
    let version = version.to_string();

    if case["roundtrip"].as_bool().unwrap_or(true) {
        let (outcome, decoded, panic) = decode_outcome(&bytes, &version);
        let before = tirj::proj_tx(&built);
        let mut ev = json!({"ev": "RoundTrip", "version": version, "outcome": outcome, "len": bytes.len(),
                            "before": before, "params_before": param_types(&built),
                            "queries_before": names(&reduce::find_queries(&built))});
        if let Some(d) = &decoded {
            ev["after"] = tirj::proj_tx(d);
            ev["params_after"] = json!(param_types(d));
            ev["queries_after"] = json!(names(&reduce::find_queries(d)));
            // deterministic encoding of the decoded value (re-encode gives the same bytes up to map order)
        } else {
            ev["after"] = json!({"k": "none"});
            ev["params_after"] = json!([]);
            ev["queries_after"] = json!([]);
            if !panic.is_null() {
                ev["site"] = panic["file"].clone();
                ev["msg"] = panic["msg"].clone();
            }
        }
        events.push(ev);
        if let (Some(d), false) = (decoded, case["env"].is_null()) {
            let a = apply_all(built.clone(), &case["env"]);
            let b = apply_all(d, &case["env"]);
            events.push(json!({"ev": "Applied", "original": a, "decoded": b}));
        }
    }
    for v in case["versions"].as_array().cloned().unwrap_or_default() {
        let (outcome, _, panic) = decode_outcome(&bytes, str_of(&v));
        let mut ev = json!({"ev": "VersionGate", "version": v, "outcome": outcome});
        if !panic.is_null() {
            ev["site"] = panic["file"].clone();
            ev["msg"] = panic["msg"].clone();
        }
        events.push(ev);
    }
    let mut muts = case["muts"].as_array().cloned().unwrap_or_default();
    if case["inflate_all"].as_bool().unwrap_or(false) {
        // every header of the encoding, one at a time, announcing a length that is not there
        for nth in 0..headers(&bytes).len() {
            for count in [u64::MAX, 1u64 << 62, 1u64 << 33] {
                muts.push(json!({"kind": "inflate", "nth": nth, "count": count}));
            }
        }
    }
    for m in muts {
        let bad = mutate(&bytes, &m);
        let (outcome, _, panic) = decode_outcome(&bad, "v1beta0");
        let mut ev = json!({"ev": "Garbage", "kind": m["kind"], "outcome": outcome, "len": bad.len()});
        if !panic.is_null() {
            ev["site"] = panic["file"].clone();
            ev["msg"] = panic["msg"].clone();
        }
        events.push(ev);
    }
    json!({"events": events})
}
