//! C11: the TIR wire format (see spec/Wire.tla).

use crate::aj::*;
use crate::ctx;
use crate::guarded;
use crate::staging;
use crate::tirj;
use serde_json::{json, Value};
use tx3_tir::encoding::{self, AnyTir, TirVersion};
use tx3_tir::model::v1beta0 as tir;
use tx3_tir::reduce::{self, Apply as _};

fn names<T>(m: &std::collections::BTreeMap<String, T>) -> Vec<String> {
    m.keys().cloned().collect()
}

fn param_types(t: &tir::Tx) -> Vec<Value> {
    reduce::find_params(t).iter().map(|(k, ty)| json!([k, tirj::type_to(ty)])).collect()
}

fn apply_all(t: tir::Tx, env: &Value) -> Value {
    let args = tirj::args_from(&env["args"]);
    let inputs = staging::inputs_from(&env["inputs"]);
    let fee = int_from(&env["fee"]) as u64;
    let r = guarded(|| -> Result<tir::Tx, String> {
        let t = reduce::apply_args(t, &args).map_err(|e| ctx::err_kind2(&e))?;
        let t = reduce::apply_inputs(t, &inputs).map_err(|e| ctx::err_kind2(&e))?;
        let t = reduce::apply_fees(t, fee).map_err(|e| ctx::err_kind2(&e))?;
        reduce::reduce(t).map_err(|e| ctx::err_kind2(&e))
    });
    match r {
        Ok(Ok(t)) => json!({"outcome": "ok", "values": staging::tx_values(&t)}),
        Ok(Err(k)) => json!({"outcome": "err", "kind": k, "values": []}),
        Err(p) => json!({"outcome": "panic", "site": p["file"], "msg": p["msg"], "values": []}),
    }
}

fn decode_outcome(bytes: &[u8], version: &str) -> (String, Option<tir::Tx>, Value) {
    let r = guarded(|| {
        let v = TirVersion::try_from(version);
        match v {
            Err(encoding::Error::UnknownTirVersion(_)) => ("unknown".to_string(), None),
            Err(_) => ("err".to_string(), None),
            Ok(v) => match encoding::from_bytes(bytes, v) {
                Ok(AnyTir::V1Beta0(t)) => ("ok".to_string(), Some(t)),
                Err(encoding::Error::DeprecatedTirVersion(_)) => ("deprecated".to_string(), None),
                Err(encoding::Error::UnknownTirVersion(_)) => ("unknown".to_string(), None),
                Err(_) => ("err".to_string(), None),
            },
        }
    });
    match r {
        Ok((o, t)) => (o, t, Value::Null),
        Err(p) => ("panic".to_string(), None, p),
    }
}

fn mutate(bytes: &[u8], m: &Value) -> Vec<u8> {
    let mut b = bytes.to_vec();
    match str_of(&m["kind"]) {
        "flip" => {
            if !b.is_empty() {
                let bit = (m["pos"].as_u64().unwrap_or(0) as usize) % (b.len() * 8);
                b[bit / 8] ^= 1 << (bit % 8);
            }
        }
        "trunc" => {
            let n = (m["len"].as_u64().unwrap_or(0) as usize).min(b.len());
            b.truncate(n);
        }
        "splice" => {
            let at = (m["at"].as_u64().unwrap_or(0) as usize).min(b.len());
            let ins = bytes_from(&m["bytes"]);
            let del = (m["del"].as_u64().unwrap_or(0) as usize).min(b.len() - at);
            b.splice(at..at + del, ins);
        }
        "raw" => b = bytes_from(&m["bytes"]),
        "nest" => {
            let depth = m["depth"].as_u64().unwrap_or(1000) as usize;
            let byte = m["byte"].as_u64().unwrap_or(0x81) as u8;
            b = vec![byte; depth];
            b.extend(bytes_from(&m["tail"]));
        }
        "nest2" => {
            // repeated multi-byte prefix, e.g. a tag followed by an array header
            let depth = m["depth"].as_u64().unwrap_or(1000) as usize;
            let unit = bytes_from(&m["unit"]);
            b = Vec::with_capacity(depth * unit.len() + 4);
            for _ in 0..depth {
                b.extend(&unit);
            }
            b.extend(bytes_from(&m["tail"]));
        }
        other => panic!("driver: unknown mutation {other}"),
    }
    b
}

pub fn run(case: &Value) -> Value {
    let built = tirj::build_tx(&case["tx"]);
    let mut events = vec![];
    let (bytes, version) = encoding::to_bytes(&built);
    let version = version.to_string();

    if case["roundtrip"].as_bool().unwrap_or(true) {
        let (outcome, decoded, panic) = decode_outcome(&bytes, &version);
        let before = tirj::proj_tx(&built);
        let mut ev = json!({"ev": "RoundTrip", "version": version, "outcome": outcome, "len": bytes.len(),
                            "before": before, "params_before": param_types(&built),
                            "queries_before": names(&reduce::find_queries(&built))});
        if let Some(d) = &decoded {
            ev["after"] = tirj::proj_tx(d);
            ev["params_after"] = json!(param_types(d));
            ev["queries_after"] = json!(names(&reduce::find_queries(d)));
            // deterministic encoding of the decoded value (re-encode gives the same bytes up to map order)
        } else {
            ev["after"] = json!({"k": "none"});
            ev["params_after"] = json!([]);
            ev["queries_after"] = json!([]);
            if !panic.is_null() {
                ev["site"] = panic["file"].clone();
                ev["msg"] = panic["msg"].clone();
            }
        }
        events.push(ev);
        if let (Some(d), false) = (decoded, case["env"].is_null()) {
            let a = apply_all(built.clone(), &case["env"]);
            let b = apply_all(d, &case["env"]);
            events.push(json!({"ev": "Applied", "original": a, "decoded": b}));
        }
    }
    for v in case["versions"].as_array().cloned().unwrap_or_default() {
        let (outcome, _, panic) = decode_outcome(&bytes, str_of(&v));
        let mut ev = json!({"ev": "VersionGate", "version": v, "outcome": outcome});
        if !panic.is_null() {
            ev["site"] = panic["file"].clone();
            ev["msg"] = panic["msg"].clone();
        }
        events.push(ev);
    }
    for m in case["muts"].as_array().cloned().unwrap_or_default() {
        let bad = mutate(&bytes, &m);
        let (outcome, _, panic) = decode_outcome(&bad, "v1beta0");
        let mut ev = json!({"ev": "Garbage", "kind": m["kind"], "outcome": outcome, "len": bad.len()});
        if !panic.is_null() {
            ev["site"] = panic["file"].clone();
            ev["msg"] = panic["msg"].clone();
        }
        events.push(ev);
    }
    json!({"events": events})
}
