//! Projection of an emitted payload into the abstract vocabulary of spec/Ledger.tla.
//! Everything is read with the independent CBOR reader (cbor.rs) following the Conway CDDL;
//! pallas is used only to answer "does a standard decoder accept it" and for Blake2b.

use crate::aj::*;
use crate::cbor::{self, Cbor, Item};
use serde_json::{json, Value};
use tx3_cardano::pallas;

pub fn blake2b256(b: &[u8]) -> Vec<u8> {
    pallas::crypto::hash::Hasher::<256>::hash(b).to_vec()
}

fn big_from_be(bytes: &[u8], neg: bool) -> Value {
    // decimal rendering of an arbitrary-length big-endian magnitude
    let mut digits: Vec<u8> = vec![0];
    for &byte in bytes {
        let mut carry = byte as u32;
        for d in digits.iter_mut() {
            let v = (*d as u32) * 256 + carry;
            *d = (v % 10) as u8;
            carry = v / 10;
        }
        while carry > 0 {
            digits.push((carry % 10) as u8);
            carry /= 10;
        }
    }
    let mut s: String = digits.iter().rev().map(|d| (b'0' + d) as char).collect();
    if neg {
        // tag 3 is -1 - n
        let n: u128 = s.parse().unwrap_or(0);
        if bytes.len() <= 15 {
            s = format!("-{}", n + 1);
        } else {
            // add one in decimal
            let mut ds: Vec<u8> = digits.clone();
            let mut i = 0;
            loop {
                if i == ds.len() {
                    ds.push(1);
                    break;
                }
                if ds[i] == 9 {
                    ds[i] = 0;
                    i += 1;
                } else {
                    ds[i] += 1;
                    break;
                }
            }
            s = format!("-{}", ds.iter().rev().map(|d| (b'0' + d) as char).collect::<String>());
        }
    }
    json!({"I": s})
}

fn int_of(it: &Item) -> Option<Value> {
    match &it.v {
        Cbor::UInt(n) => Some(json!({"I": n.to_string()})),
        Cbor::NInt(n) => Some(json!({"I": (-1i128 - *n as i128).to_string()})),
        _ => None,
    }
}

/// Plutus Data as an abstract tree (the "standard decoder" of C09).
pub fn plutus(it: &Item) -> Value {
    match &it.v {
        Cbor::UInt(_) | Cbor::NInt(_) => json!({"k": "int", "n": int_of(it).unwrap(), "form": "int", "minimal": it.minimal}),
        Cbor::Tag(t @ (2 | 3), inner) => match &inner.v {
            Cbor::Bytes(b, _) => {
                let minimal = b.first().map(|x| *x != 0).unwrap_or(false);
                json!({"k": "int", "n": big_from_be(b, *t == 3), "form": "bignum", "minimal": minimal, "len": b.len()})
            }
            _ => json!({"k": "invalid", "why": "bignum without bytes"}),
        },
        Cbor::Bytes(b, indef) => json!({"k": "bytes", "v": bytes_to(b), "chunked": indef}),
        Cbor::Array(items, indef) => json!({"k": "list", "items": items.iter().map(plutus).collect::<Vec<_>>(), "indef": indef}),
        Cbor::Map(items, _) => json!({"k": "map", "pairs": items.iter().map(|(a, b)| json!({"a": plutus(a), "b": plutus(b)})).collect::<Vec<_>>()}),
        Cbor::Tag(t, inner) => {
            let fields = |x: &Item| -> Option<Vec<Value>> { x.as_list().map(|l| l.iter().map(plutus).collect()) };
            if (121..=127).contains(t) {
                match fields(inner) {
                    Some(f) => json!({"k": "constr", "ix": t - 121, "fields": f, "form": "compact"}),
                    None => json!({"k": "invalid", "why": "constr without list"}),
                }
            } else if (1280..=1400).contains(t) {
                match fields(inner) {
                    Some(f) => json!({"k": "constr", "ix": t - 1280 + 7, "fields": f, "form": "compact"}),
                    None => json!({"k": "invalid", "why": "constr without list"}),
                }
            } else if *t == 102 {
                match inner.as_list() {
                    Some([ix, fs]) => match (ix.as_u64(), fields(fs)) {
                        (Some(ix), Some(f)) => json!({"k": "constr", "ix": ix, "fields": f, "form": "general"}),
                        _ => json!({"k": "invalid", "why": "bad general constr"}),
                    },
                    _ => json!({"k": "invalid", "why": "bad general constr"}),
                }
            } else {
                json!({"k": "invalid", "why": "unknown tag", "tag": t})
            }
        }
        _ => json!({"k": "invalid", "why": "not plutus data"}),
    }
}

fn tx_in(it: &Item) -> Value {
    let l = it.as_list().unwrap_or(&[]);
    json!({"txid": bytes_to(l.first().and_then(|x| x.as_bytes()).unwrap_or(&[])),
           "index": l.get(1).and_then(|x| x.as_u64()).unwrap_or(0)})
}

fn multiasset(it: &Item, empties: &mut Vec<String>, dups: &mut Vec<String>, what: &str) -> Vec<Value> {
    let mut out = vec![];
    let pols = it.as_map().unwrap_or(&[]);
    if pols.is_empty() {
        empties.push(format!("{what}"));
    }
    let mut seen_p = std::collections::BTreeSet::new();
    for (p, assets) in pols {
        let pb = p.as_bytes().unwrap_or(&[]).to_vec();
        if !seen_p.insert(pb.clone()) {
            dups.push(format!("{what}.policy"));
        }
        let am = assets.as_map().unwrap_or(&[]);
        if am.is_empty() {
            empties.push(format!("{what}.policy_assets"));
        }
        let mut seen_a = std::collections::BTreeSet::new();
        for (n, q) in am {
            let nb = n.as_bytes().unwrap_or(&[]).to_vec();
            if !seen_a.insert(nb.clone()) {
                dups.push(format!("{what}.asset"));
            }
            out.push(json!({"policy": bytes_to(&pb), "name": bytes_to(&nb), "n": int_of(q).unwrap_or(json!({"I": "0"}))}));
        }
    }
    out
}

fn metadatum(it: &Item) -> Value {
    match &it.v {
        Cbor::UInt(_) | Cbor::NInt(_) => json!({"k": "int", "n": int_of(it).unwrap()}),
        Cbor::Bytes(b, _) => json!({"k": "bytes", "v": bytes_to(b)}),
        Cbor::Text(s) => json!({"k": "text", "v": bytes_to(s.as_bytes())}),
        Cbor::Array(a, _) => json!({"k": "list", "items": a.iter().map(metadatum).collect::<Vec<_>>()}),
        Cbor::Map(m, _) => json!({"k": "map", "pairs": m.iter().map(|(a, b)| json!({"a": metadatum(a), "b": metadatum(b)})).collect::<Vec<_>>()}),
        _ => json!({"k": "invalid"}),
    }
}

fn set_field(body: &Item, key: u64, name: &str, empties: &mut Vec<String>, dups: &mut Vec<String>) -> Option<Vec<Value>> {
    let f = body.map_get(key)?;
    let l = f.as_list().unwrap_or(&[]);
    if l.is_empty() {
        empties.push(name.to_string());
    }
    let vals: Vec<Value> = l.iter().map(|x| if x.as_bytes().is_some() { bytes_to(x.as_bytes().unwrap()) } else { tx_in(x) }).collect();
    let mut seen = std::collections::BTreeSet::new();
    for v in &vals {
        if !seen.insert(v.to_string()) {
            dups.push(name.to_string());
            break;
        }
    }
    Some(vals)
}

/// Independent encoding of the language views for the script-data hash (Plutus V2 / V3).
fn language_views(version: u8, cost_model: &[i64]) -> Vec<u8> {
    fn head(out: &mut Vec<u8>, major: u8, n: u64) {
        let m = major << 5;
        if n < 24 {
            out.push(m | n as u8);
        } else if n <= 0xff {
            out.push(m | 24);
            out.push(n as u8);
        } else if n <= 0xffff {
            out.push(m | 25);
            out.extend((n as u16).to_be_bytes());
        } else if n <= 0xffff_ffff {
            out.push(m | 26);
            out.extend((n as u32).to_be_bytes());
        } else {
            out.push(m | 27);
            out.extend(n.to_be_bytes());
        }
    }
    let mut out = vec![];
    head(&mut out, 5, 1);
    head(&mut out, 0, version as u64);
    head(&mut out, 4, cost_model.len() as u64);
    for c in cost_model {
        if *c >= 0 {
            head(&mut out, 0, *c as u64);
        } else {
            head(&mut out, 1, (-1 - *c) as u64);
        }
    }
    out
}

pub struct HashCtx<'a> {
    pub cost_models: &'a std::collections::HashMap<u8, Vec<i64>>,
}

pub fn project(payload: &[u8], reported_hash: &[u8], hctx: Option<&HashCtx>) -> Value {
    let decodes = pallas::codec::minicbor::decode::<pallas::ledger::primitives::conway::Tx>(payload).is_ok();
    let root = match cbor::parse(payload) {
        Ok(r) => r,
        Err(e) => return json!({"decodes": decodes, "parse_error": e}),
    };
    let parts = root.as_list().unwrap_or(&[]);
    if parts.len() != 4 {
        return json!({"decodes": decodes, "parse_error": "tx is not a 4-array"});
    }
    let (body, wit, aux) = (&parts[0], &parts[1], &parts[3]);
    let mut empties: Vec<String> = vec![];
    let mut dups: Vec<String> = vec![];

    // body keys unique?
    if let Some(m) = body.as_map() {
        let mut seen = std::collections::BTreeSet::new();
        for (k, _) in m {
            if !seen.insert(k.as_u64()) {
                dups.push("body.key".into());
            }
        }
    }
    let inputs = set_field(body, 0, "inputs", &mut empties, &mut dups).unwrap_or_default();
    // an empty input set is legal CBOR but is reported separately, not as an "empty entry"
    empties.retain(|e| e != "inputs");
    let outputs: Vec<Value> = body.map_get(1).and_then(|o| o.as_list()).unwrap_or(&[]).iter().enumerate().map(|(i, o)| {
        let (addr, value, datum, script) = match &o.v {
            Cbor::Map(_, _) => (o.map_get(0), o.map_get(1), o.map_get(2), o.map_get(3)),
            Cbor::Array(a, _) => (a.first(), a.get(1), None, None),
            _ => (None, None, None, None),
        };
        let (lovelace, assets) = match value.map(|v| &v.v) {
            Some(Cbor::UInt(n)) => (json!({"I": n.to_string()}), vec![]),
            Some(Cbor::Array(a, _)) => (
                a.first().and_then(int_of).unwrap_or(json!({"I": "0"})),
                a.get(1).map(|m| multiasset(m, &mut empties, &mut dups, &format!("output{i}.assets"))).unwrap_or_default(),
            ),
            _ => (json!({"I": "0"}), vec![]),
        };
        let datum_v = match datum.and_then(|d| d.as_list()) {
            Some([kind, d]) if kind.as_u64() == Some(1) => match &d.v {
                Cbor::Tag(24, inner) => match inner.as_bytes().map(cbor::parse) {
                    Some(Ok(pd)) => json!({"k": "inline", "data": plutus(&pd), "raw": hex::encode(inner.as_bytes().unwrap())}),
                    _ => json!({"k": "invalid"}),
                },
                _ => json!({"k": "invalid"}),
            },
            Some([kind, h]) if kind.as_u64() == Some(0) => json!({"k": "hash", "v": bytes_to(h.as_bytes().unwrap_or(&[]))}),
            Some(_) => json!({"k": "invalid"}),
            None => json!({"k": "none"}),
        };
        // script_ref = #6.24(bytes .cbor [language, script]); a native script is reported as its own bytes
        let script_v = match script.map(|x| &x.v) {
            None => json!({"k": "none"}),
            Some(Cbor::Tag(24, inner)) => match inner.as_bytes().map(|b| (b, cbor::parse(b))) {
                Some((b, Ok(sc))) => match sc.as_list() {
                    Some([lang, body]) if lang.as_u64().is_some() => json!({"k": "some", "lang": lang.as_u64().unwrap(),
                        "v": bytes_to(if lang.as_u64() == Some(0) { body.raw(b) } else { body.as_bytes().unwrap_or(&[]) })}),
                    _ => json!({"k": "invalid"}),
                },
                _ => json!({"k": "invalid"}),
            },
            Some(_) => json!({"k": "invalid"}),
        };
        json!({"address": bytes_to(addr.and_then(|a| a.as_bytes()).unwrap_or(&[])), "lovelace": lovelace,
               "assets": assets, "datum": datum_v, "has_script_ref": script.is_some(), "script_ref": script_v})
    }).collect();
    let mint = body.map_get(9).map(|m| multiasset(m, &mut empties, &mut dups, "mint"));
    let withdrawals: Option<Vec<Value>> = body.map_get(5).map(|w| {
        let m = w.as_map().unwrap_or(&[]);
        if m.is_empty() {
            empties.push("withdrawals".into());
        }
        m.iter().map(|(a, n)| json!({"account": bytes_to(a.as_bytes().unwrap_or(&[])), "n": int_of(n).unwrap_or(json!({"I": "0"}))})).collect()
    });
    let opt_int = |k: u64| body.map_get(k).and_then(int_of).map(|v| json!({"k": "some", "n": v})).unwrap_or(json!({"k": "none"}));
    let opt_bytes = |k: u64| body.map_get(k).and_then(|x| x.as_bytes()).map(|b| json!({"k": "some", "v": bytes_to(b)})).unwrap_or(json!({"k": "none"}));
    let required_signers = set_field(body, 14, "required_signers", &mut empties, &mut dups);
    let reference_inputs = set_field(body, 18, "reference_inputs", &mut empties, &mut dups);
    let collateral = set_field(body, 13, "collateral", &mut empties, &mut dups);
    let certs = body.map_get(4).and_then(|c| c.as_list()).map(|l| { if l.is_empty() { empties.push("certificates".into()); } l.len() });
    // certificates in order: [kind, credential [0 key | 1 script, hash], drep [0 key | 1 script, hash] | [2] | [3]] for vote delegation (kind 9)
    let cert_list: Vec<Value> = body.map_get(4).and_then(|c| c.as_list()).unwrap_or(&[]).iter().map(|c| {
        let l = c.as_list().unwrap_or(&[]);
        let kind = l.first().and_then(|x| x.as_u64()).unwrap_or(999);
        let pair = |it: Option<&Item>| -> (u64, Vec<u8>) {
            let p = it.and_then(|x| x.as_list()).unwrap_or(&[]);
            (p.first().and_then(|x| x.as_u64()).unwrap_or(999), p.get(1).and_then(|x| x.as_bytes()).unwrap_or(&[]).to_vec())
        };
        let (ck, cred) = pair(l.get(1));
        let (dk, drep) = pair(l.get(2));
        json!({"kind": kind, "cred_kind": ck, "cred": bytes_to(&cred), "drep_kind": dk, "drep": bytes_to(&drep), "arity": l.len()})
    }).collect();
    {
        let mut seen = std::collections::BTreeSet::new();
        for c in &cert_list {
            if !seen.insert(c.to_string()) {
                dups.push("certificates".into());
                break;
            }
        }
    }

    // witness set
    let mut redeemers = vec![];
    let redeemers_item = wit.map_get(5);
    if let Some(r) = redeemers_item {
        match &r.v {
            Cbor::Map(m, _) => {
                if m.is_empty() {
                    empties.push("redeemers".into());
                }
                let mut seen = std::collections::BTreeSet::new();
                for (k, v) in m {
                    let kl = k.as_list().unwrap_or(&[]);
                    let vl = v.as_list().unwrap_or(&[]);
                    let tag = kl.first().and_then(|x| x.as_u64()).unwrap_or(99);
                    let ix = kl.get(1).and_then(|x| x.as_u64()).unwrap_or(0);
                    if !seen.insert((tag, ix)) {
                        dups.push("redeemers".into());
                    }
                    let ex = vl.get(1).and_then(|e| e.as_list()).unwrap_or(&[]);
                    redeemers.push(json!({"tag": tag, "index": ix, "data": vl.first().map(plutus).unwrap_or(json!({"k": "invalid"})),
                        "mem": ex.first().and_then(|x| x.as_u64()).unwrap_or(0), "steps": ex.get(1).and_then(|x| x.as_u64()).unwrap_or(0)}));
                }
            }
            Cbor::Array(a, _) => {
                if a.is_empty() {
                    empties.push("redeemers".into());
                }
                for r in a {
                    let l = r.as_list().unwrap_or(&[]);
                    let ex = l.get(3).and_then(|e| e.as_list()).unwrap_or(&[]);
                    redeemers.push(json!({"tag": l.first().and_then(|x| x.as_u64()).unwrap_or(99), "index": l.get(1).and_then(|x| x.as_u64()).unwrap_or(0),
                        "data": l.get(2).map(plutus).unwrap_or(json!({"k": "invalid"})),
                        "mem": ex.first().and_then(|x| x.as_u64()).unwrap_or(0), "steps": ex.get(1).and_then(|x| x.as_u64()).unwrap_or(0)}));
                }
            }
            _ => {}
        }
    }
    let count = |k: u64, name: &str, empties: &mut Vec<String>| -> usize {
        match wit.map_get(k).and_then(|x| x.as_list()) {
            Some(l) => {
                if l.is_empty() {
                    empties.push(name.to_string());
                }
                l.len()
            }
            None => 0,
        }
    };
    // the scripts the witness set carries: (language, bytes); a native script is reported as its own bytes
    let mut scripts: Vec<Value> = vec![];
    for (key, lang) in [(1u64, 0u64), (3, 1), (6, 2), (7, 3)] {
        for it in wit.map_get(key).and_then(|x| x.as_list()).unwrap_or(&[]) {
            let v = if lang == 0 { it.raw(payload).to_vec() } else { it.as_bytes().unwrap_or(&[]).to_vec() };
            let j = json!({"lang": lang, "v": bytes_to(&v)});
            if scripts.contains(&j) {
                dups.push("witness_scripts".into());
            }
            scripts.push(j);
        }
    }
    let native = count(1, "native_scripts", &mut empties);
    let v1 = count(3, "plutus_v1", &mut empties);
    let v2 = count(6, "plutus_v2", &mut empties);
    let v3 = count(7, "plutus_v3", &mut empties);

    // auxiliary data
    let aux_present = !matches!(aux.v, Cbor::Simple(22));
    let mut metadata = vec![];
    if aux_present {
        let inner = match &aux.v {
            Cbor::Tag(259, x) => x.map_get(0),
            Cbor::Map(_, _) => Some(aux),
            Cbor::Array(a, _) => a.first(),
            _ => None,
        };
        if let Some(m) = inner.and_then(|x| x.as_map()) {
            if m.is_empty() {
                empties.push("metadata".into());
            }
            let mut seen = std::collections::BTreeSet::new();
            for (k, v) in m {
                if !seen.insert(k.as_u64()) {
                    dups.push("metadata".into());
                }
                metadata.push(json!({"label": int_of(k).unwrap_or(json!({"I": "-1"})), "value": metadatum(v)}));
            }
        }
    }
    let aux_hash = body.map_get(7).and_then(|x| x.as_bytes()).map(|b| b.to_vec());
    let aux_hash_ok = match (&aux_hash, aux_present) {
        (Some(h), true) => *h == blake2b256(aux.raw(payload)),
        (None, false) => true,
        _ => false,
    };
    let sdh = body.map_get(11).and_then(|x| x.as_bytes()).map(|b| b.to_vec());
    // recomputed script data hash: redeemers bytes ++ (no datums) ++ language views
    let plutus_version: u8 = if v1 > 0 { 0 } else if v2 > 0 { 1 } else { 2 };
    let sdh_ok = match (&sdh, redeemers_item, hctx) {
        (None, None, _) => json!("yes"),
        (Some(h), Some(r), Some(hc)) if plutus_version != 0 => match hc.cost_models.get(&plutus_version) {
            Some(cm) => {
                let mut buf = r.raw(payload).to_vec();
                buf.extend(language_views(plutus_version, cm));
                json!(if *h == blake2b256(&buf) { "yes" } else { "no" })
            }
            None => json!("unknown"),
        },
        (Some(_), Some(_), _) => json!("unknown"),
        (Some(_), None, _) => json!("no-redeemers"),
        (None, Some(_), _) => json!("missing"),
    };
    json!({
        "decodes": decodes,
        "len": payload.len(),
        "hash_ok": blake2b256(body.raw(payload)) == reported_hash,
        "inputs": inputs, "outputs": outputs,
        "fee": body.map_get(2).and_then(int_of).unwrap_or(json!({"I": "-1"})),
        "ttl": opt_int(3), "validity_start": opt_int(8),
        "mint": mint.clone().unwrap_or_default(), "mint_present": mint.is_some(),
        "withdrawals": withdrawals.clone().unwrap_or_default(),
        "required_signers": required_signers.unwrap_or_default(),
        "reference_inputs": reference_inputs.unwrap_or_default(),
        "collateral": collateral.unwrap_or_default(),
        "network_id": opt_int(15), "donation": opt_int(22),
        "certificates": certs.unwrap_or(0), "certs": cert_list, "scripts": scripts,
        "aux_present": aux_present, "aux_hash_present": aux_hash.is_some(), "aux_hash_ok": aux_hash_ok,
        "metadata": metadata,
        "redeemers": redeemers, "redeemers_present": redeemers_item.is_some(),
        "script_data_hash_present": sdh.is_some(), "script_data_hash_ok": sdh_ok,
        "script_data_hash": opt_bytes(11),
        "witness": {"native": native, "v1": v1, "v2": v2, "v3": v3},
        "empties": empties, "dups": dups,
        "valid_flag": matches!(parts[2].v, Cbor::Simple(21)),
        "output_sizes": body.map_get(1).and_then(|o| o.as_list()).unwrap_or(&[]).iter().map(|o| o.end - o.start).collect::<Vec<_>>(),
    })
}
