//! C05 / C20 (and the end-to-end half of other checks): `resolve_tx` on a source-level
//! template with the recording compiler and store.  One compiler instance may be shared by
//! a sequence of resolutions (`instance` = "A") and compared with fresh ones ("B").

use crate::aj::*;
use crate::ctx;
use crate::guarded;
use crate::lang;
use crate::tirj;
use serde_json::{json, Value};
use tx3_tir::encoding::AnyTir;

fn summarize_round(r: &Value, n: usize) -> Value {
    if r["outcome"] != "ok" {
        return json!({"ev": "Round", "n": n, "outcome": "err", "kind": r["kind"], "had_mem": r["had_mem"]});
    }
    let d = &r["decoded"];
    let outs: Vec<Value> = d["outputs"].as_array().cloned().unwrap_or_default().iter().map(|o| o["lovelace"].clone()).collect();
    json!({"ev": "Round", "n": n, "outcome": "ok", "had_mem": r["had_mem"], "body_fee": d["fee"], "len": r["len"],
           "reported": r["reported"], "digest": r["digest"], "out_lovelace": outs, "out_sizes": d["output_sizes"],
           "bound": r["bound"], "inputs": d["inputs"]})
}

/// Runs one resolution on `compiler`; returns the trace events.
pub fn resolve_once(
    step: &Value,
    compiler: &mut ctx::RecCompiler,
    events: &mut Vec<Value>,
    label: &str,
) {
    let src = str_of(&step["source"]);
    let txname = str_of(&step["tx"]);
    let front = lang::lower_source(src);
    let lang::Front::Ok(txs) = &front else {
        events.push(lang::front_event(&front));
        events.push(json!({"ev": "Result", "label": label, "outcome": "err", "kind": "front-end"}));
        return;
    };
    let Some(tir) = txs.get(txname) else {
        events.push(json!({"ev": "Result", "label": label, "outcome": "err", "kind": "no-such-tx"}));
        return;
    };
    let args = tirj::args_from(&step["args"]);
    let store = ctx::RecStore::from_json(&step["store"]);
    let rounds = step["rounds"].as_u64().unwrap_or(3) as usize;
    let res = guarded(|| pollster::block_on(tx3_resolver::resolve_tx(AnyTir::V1Beta0(tir.clone()), &args, compiler, &store, rounds)));
    let mut n = 0;
    for e in compiler.take_log() {
        if e["ev"] == "Round" {
            n += 1;
            events.push(summarize_round(&e, n));
        } else {
            events.push(e);
        }
    }
    events.push(match res {
        Ok(Ok(c)) => {
            let hctx = crate::ledger::HashCtx { cost_models: &compiler.inner.pparams.cost_models };
            let d = crate::ledger::project(&c.payload, &c.hash, Some(&hctx));
            let outs: Vec<Value> = d["outputs"].as_array().cloned().unwrap_or_default().iter().map(|o| o["lovelace"].clone()).collect();
            json!({"ev": "Result", "label": label, "outcome": "ok", "fee": int_to(c.fee as i128), "body_fee": d["fee"], "len": c.payload.len(),
                   "digest": hex::encode(crate::ledger::blake2b256(&c.payload)), "hash": hex::encode(&c.hash), "out_lovelace": outs,
                   "hash_ok": d["hash_ok"]})
        }
        Ok(Err(e)) => json!({"ev": "Result", "label": label, "outcome": "err", "kind": ctx::err_kind(&e)}),
        Err(p) => json!({"ev": "Result", "label": label, "outcome": "panic", "site": p["file"], "msg": p["msg"]}),
    });
}

pub fn run(case: &Value) -> Value {
    let mut events = vec![];
    // instance A: the whole sequence on one compiler
    let mut a = ctx::RecCompiler::new(ctx::make_compiler(&case["cfg"]));
    let steps = case["steps"].as_array().cloned().unwrap_or_default();
    for (i, st) in steps.iter().enumerate() {
        events.push(json!({"ev": "Begin", "instance": "A", "pos": i + 1, "last": i + 1 == steps.len()}));
        resolve_once(st, &mut a, &mut events, "A");
    }
    // instance B: a fresh, identically configured compiler for the last step only
    if case["compare_fresh"].as_bool().unwrap_or(false) {
        if let Some(st) = steps.last() {
            let mut b = ctx::RecCompiler::new(ctx::make_compiler(&case["cfg"]));
            events.push(json!({"ev": "Begin", "instance": "B", "pos": steps.len(), "last": true}));
            resolve_once(st, &mut b, &mut events, "B");
        }
    }
    json!({"events": events})
}
