//! C12 / C13 / C19: the front end on arbitrary source text.  Every stage runs under
//! `guarded`, so a panic is an observation; diagnostics are projected with the facts C19 needs.

use crate::aj::*;
use crate::ctx;
use crate::guarded;
use serde_json::{json, Value};

fn is_dummy(span: &tx3_lang::ast::Span) -> bool {
    format!("{span:?}").contains("dummy: true")
}

fn render(err: impl miette::Diagnostic + Send + Sync + 'static) -> &'static str {
    match guarded(move || format!("{:?}", miette::Report::new(err))) {
        Ok(_) => "ok",
        Err(_) => "panic",
    }
}

pub fn run_source(src: &str, do_lower: bool) -> Vec<Value> {
    let mut events = vec![];
    let parsed = guarded(|| tx3_lang::parsing::parse_string(src));
    let mut ast = match parsed {
        Err(p) => {
            events.push(json!({"ev": "Parsed", "outcome": "panic", "site": p["file"], "msg": p["msg"]}));
            return events;
        }
        Ok(Err(e)) => {
            let (s, t) = (e.span.start, e.span.end);
            let dummy = is_dummy(&e.span);
            let on = |i: usize| i <= e.src.len() && e.src.is_char_boundary(i);
            let rendered = render(tx3_lang::parsing::Error { message: e.message.clone(), src: e.src.clone(), span: e.span.clone() });
            events.push(json!({"ev": "Parsed", "outcome": "err", "src_len": e.src.len(), "input_len": src.len(),
                               "start": s, "end": t, "dummy": dummy, "start_on_boundary": on(s), "end_on_boundary": on(t),
                               "rendered": rendered}));
            return events;
        }
        Ok(Ok(a)) => {
            events.push(json!({"ev": "Parsed", "outcome": "ok"}));
            a
        }
    };
    let report = match guarded(|| tx3_lang::analyzing::analyze(&mut ast)) {
        Err(p) => {
            events.push(json!({"ev": "Analyzed", "outcome": "panic", "site": p["file"], "msg": p["msg"], "errors": []}));
            return events;
        }
        Ok(r) => r,
    };
    let mut errs = vec![];
    for e in report.errors.iter() {
        let span = e.span();
        let dummy = is_dummy(span);
        let kind = ctx::err_kind(e);
        let within = span.start <= span.end && span.end <= src.len();
        let on_boundary = within && src.is_char_boundary(span.start) && src.is_char_boundary(span.end);
        let located = if on_boundary { src[span.start..span.end].to_string() } else { String::new() };
        let name = match e {
            tx3_lang::analyzing::Error::NotInScope(x) => x.name.clone(),
            _ => String::new(),
        };
        errs.push(json!({"kind": kind, "dummy": dummy, "start": span.start, "end": span.end, "input_len": src.len(),
                         "on_boundary": on_boundary, "located": located, "name": name}));
    }
    let n_errors = errs.len();
    events.push(json!({"ev": "Analyzed", "outcome": "ok", "errors": errs, "n": n_errors}));
    if !do_lower {
        return events;
    }
    // C13: lowering of every tx, and the facade that chains the three stages
    let names: Vec<String> = ast.txs.iter().map(|t| t.name.value.clone()).collect();
    for name in names {
        let r = guarded(|| tx3_lang::lowering::lower(&ast, &name));
        events.push(match r {
            Ok(Ok(_)) => json!({"ev": "Lowered", "tx": name, "outcome": "ok", "n_errors": n_errors, "kind": "", "site": "", "msg": ""}),
            Ok(Err(e)) => json!({"ev": "Lowered", "tx": name, "outcome": "err", "kind": ctx::err_kind(&e), "n_errors": n_errors, "site": "", "msg": ""}),
            Err(p) => json!({"ev": "Lowered", "tx": name, "outcome": "panic", "site": p["file"], "msg": p["msg"], "n_errors": n_errors, "kind": ""}),
        });
    }
    let src_owned = src.to_string();
    let ws = guarded(move || {
        let mut ws = tx3_lang::Workspace::from_string(src_owned);
        ws.lower().map(|_| ()).map_err(|e| ctx::err_kind(&e))
    });
    events.push(match ws {
        Ok(Ok(())) => json!({"ev": "Workspace", "outcome": "ok", "n_errors": n_errors, "kind": "", "site": "", "msg": ""}),
        Ok(Err(k)) => json!({"ev": "Workspace", "outcome": "err", "kind": k, "n_errors": n_errors, "site": "", "msg": ""}),
        Err(p) => json!({"ev": "Workspace", "outcome": "panic", "site": p["file"], "msg": p["msg"], "n_errors": n_errors, "kind": ""}),
    });
    events
}

pub fn run(case: &Value) -> Value {
    let do_lower = case["lower"].as_bool().unwrap_or(false);
    let mut events = vec![];
    for s in case["sources"].as_array().cloned().unwrap_or_default() {
        events.push(json!({"ev": "Source", "len": str_of(&s).len()}));
        events.extend(run_source(str_of(&s), do_lower));
    }
    json!({"events": events})
}
