//! C16: JSON argument coercion and request assembly at the service boundary.

use crate::aj::*;
use crate::guarded;
use crate::tirj;
use serde_json::{json, Value};
use tx3_resolver::interop::ArgValue;
use tx3_tir::model::core::Type;

pub fn arg_to(a: &ArgValue) -> Value {
    match a {
        ArgValue::Int(x) => json!({"k": "number", "num": int_to(*x)}),
        ArgValue::Bool(x) => json!({"k": "bool", "flag": x}),
        ArgValue::String(x) => json!({"k": "string", "v": bytes_to(x.as_bytes())}),
        ArgValue::Bytes(x) => json!({"k": "bytes", "v": bytes_to(x)}),
        ArgValue::Address(x) => json!({"k": "address", "v": bytes_to(x)}),
        ArgValue::UtxoRef(x) => json!({"k": "utxo_refs", "refs": [tirj::ref_to(x)]}),
        ArgValue::UtxoSet(_) => json!({"k": "utxo_set", "utxos": []}),
    }
}

pub fn run(case: &Value) -> Value {
    let mut events = vec![];
    for item in case["items"].as_array().cloned().unwrap_or_default() {
        match str_of(&item["op"]) {
            "from_json" => {
                let ty: Type = tirj::type_from(str_of(&item["type"]));
                let v = item["json"].clone();
                let r = guarded(|| tx3_resolver::interop::from_json(v, &ty));
                let mut ev = item["tag"].clone();
                ev["ev"] = json!("FromJson");
                match r {
                    Ok(Ok(a)) => {
                        ev["outcome"] = json!("ok");
                        ev["got"] = arg_to(&a);
                    }
                    Ok(Err(_)) => {
                        ev["outcome"] = json!("err");
                        ev["got"] = json!({"k": "none"});
                    }
                    Err(p) => {
                        ev["outcome"] = json!("panic");
                        ev["got"] = json!({"k": "none"});
                        ev["site"] = p["file"].clone();
                        ev["msg"] = p["msg"].clone();
                    }
                }
                events.push(ev);
            }
            "request" => {
                let doc = item["doc"].clone();
                let r = guarded(|| -> Result<Option<std::collections::BTreeMap<String, Value>>, String> {
                    let params: tx3_resolver::trp::ResolveParams = serde_json::from_value(doc).map_err(|e| format!("serde: {e}"))?;
                    match tx3_resolver::trp::parse_resolve_request(params) {
                        Ok((_tir, args)) => Ok(Some(args.iter().map(|(k, v)| (k.clone(), arg_to(v))).collect())),
                        Err(_) => Ok(None),
                    }
                });
                let mut ev = item["tag"].clone();
                ev["ev"] = json!("Request");
                match r {
                    Ok(Ok(Some(m))) => {
                        ev["outcome"] = json!("ok");
                        ev["keys"] = json!(m.keys().collect::<Vec<_>>());
                        ev["values"] = json!(m);
                    }
                    Ok(Ok(None)) | Ok(Err(_)) => {
                        ev["outcome"] = json!("err");
                        ev["keys"] = json!([]);
                        ev["values"] = json!({});
                    }
                    Err(p) => {
                        ev["outcome"] = json!("panic");
                        ev["keys"] = json!([]);
                        ev["values"] = json!({});
                        ev["site"] = p["file"].clone();
                        ev["msg"] = p["msg"].clone();
                    }
                }
                events.push(ev);
            }
            "encode_tir" => {
                // realisation helper: a template with the declared parameters, encoded for the envelope
                let tx = tirj::build_tx(&item["tx"]);
                let (bytes, version) = tx3_tir::encoding::to_bytes(&tx);
                events.push(json!({"ev": "Encoded", "hex": hex::encode(bytes), "version": version.to_string()}));
            }
            other => events.push(json!({"ev": "Error", "msg": format!("unknown op {other}")})),
        }
    }
    json!({"events": events})
}
