//! Abstract-JSON <-> tx3_tir::model::v1beta0 conversions (see spec/Tir.tla for the vocabulary).
//! `build_*` realises an abstract term as the real IR value, `proj_*` projects a real IR value
//! back.  Both are total over the IR data model and written variant by variant.

use crate::aj::*;
use crate::assets::{class_from, class_to};
use serde_json::{json, Value};
use std::collections::{HashMap, HashSet};
use tx3_tir::model::assets::CanonicalAssets;
use tx3_tir::model::core::{Type, Utxo, UtxoRef};
use tx3_tir::model::v1beta0 as tir;
use tx3_tir::reduce::ArgValue;

fn b(x: tir::Expression) -> Box<tir::Expression> {
    Box::new(x)
}

pub fn type_from(s: &str) -> Type {
    match s {
        "Undefined" => Type::Undefined,
        "Unit" => Type::Unit,
        "Int" => Type::Int,
        "Bool" => Type::Bool,
        "Bytes" => Type::Bytes,
        "Address" => Type::Address,
        "Utxo" => Type::Utxo,
        "UtxoRef" => Type::UtxoRef,
        "AnyAsset" => Type::AnyAsset,
        "List" => Type::List,
        "Map" => Type::Map,
        other => Type::Custom(other.strip_prefix("Custom:").unwrap_or(other).to_string()),
    }
}

pub fn type_to(t: &Type) -> String {
    match t {
        Type::Undefined => "Undefined".into(),
        Type::Unit => "Unit".into(),
        Type::Int => "Int".into(),
        Type::Bool => "Bool".into(),
        Type::Bytes => "Bytes".into(),
        Type::Address => "Address".into(),
        Type::Utxo => "Utxo".into(),
        Type::UtxoRef => "UtxoRef".into(),
        Type::AnyAsset => "AnyAsset".into(),
        Type::List => "List".into(),
        Type::Map => "Map".into(),
        Type::Custom(x) => format!("Custom:{x}"),
    }
}

pub fn ref_from(v: &Value) -> UtxoRef {
    UtxoRef { txid: bytes_from(&v["txid"]), index: v["index"].as_u64().unwrap_or(0) as u32 }
}

pub fn ref_to(r: &UtxoRef) -> Value {
    json!({"txid": bytes_to(&r.txid), "index": r.index})
}

pub fn assets_from_entries(v: &Value) -> CanonicalAssets {
    let mut acc = CanonicalAssets::empty();
    for e in v.as_array().cloned().unwrap_or_default() {
        acc = acc + CanonicalAssets::from_class_and_amount(class_from(&e["c"]), int_from(&e["n"]));
    }
    acc
}

pub fn assets_to_entries(a: &CanonicalAssets) -> Value {
    let mut entries: Vec<_> = a.iter().map(|(c, n)| (c.clone(), *n)).collect();
    entries.sort();
    Value::Array(
        entries
            .iter()
            .filter(|(_, n)| *n != 0)
            .map(|(c, n)| json!({"c": class_to(c), "n": int_to(*n)}))
            .collect(),
    )
}

pub fn utxo_from(v: &Value) -> Utxo {
    let opt = |x: &Value| {
        if x.is_null() || str_of(&x["k"]) == "absent" {
            None
        } else {
            Some(build_expr(x))
        }
    };
    Utxo {
        r#ref: ref_from(&v["ref"]),
        address: bytes_from(&v["address"]),
        assets: assets_from_entries(&v["assets"]),
        datum: opt(&v["datum"]),
        script: opt(&v["script"]),
    }
}

pub fn utxo_to(u: &Utxo) -> Value {
    json!({
        "ref": ref_to(&u.r#ref),
        "address": bytes_to(&u.address),
        "assets": assets_to_entries(&u.assets),
        "datum": u.datum.as_ref().map(proj_expr).unwrap_or(json!({"k": "none"})),
    })
}

pub fn utxo_set_from(v: &Value) -> HashSet<Utxo> {
    v.as_array().cloned().unwrap_or_default().iter().map(utxo_from).collect()
}

fn query_from(q: &Value) -> tir::InputQuery {
    tir::InputQuery {
        address: build_expr(&q["address"]),
        min_amount: build_expr(&q["min_amount"]),
        r#ref: build_expr(&q["ref"]),
        many: q["many"].as_bool().unwrap_or(false),
        collateral: q["collateral"].as_bool().unwrap_or(false),
    }
}

pub fn query_to(q: &tir::InputQuery) -> Value {
    json!({
        "address": proj_expr(&q.address),
        "min_amount": proj_expr(&q.min_amount),
        "ref": proj_expr(&q.r#ref),
        "many": q.many,
        "collateral": q.collateral,
    })
}

fn adhoc_from(v: &Value) -> tir::AdHocDirective {
    let mut data = HashMap::new();
    for d in v["data"].as_array().cloned().unwrap_or_default() {
        data.insert(str_of(&d["key"]).to_string(), build_expr(&d["val"]));
    }
    tir::AdHocDirective { name: str_of(&v["name"]).to_string(), data }
}

fn adhoc_data_to(a: &tir::AdHocDirective) -> Value {
    let mut keys: Vec<_> = a.data.keys().cloned().collect();
    keys.sort();
    Value::Array(
        keys.iter().map(|k| json!({"key": k, "val": proj_expr(&a.data[k])})).collect(),
    )
}

pub fn build_expr(v: &Value) -> tir::Expression {
    use tir::Expression as E;
    let a = || build_expr(&v["a"]);
    let bb = || build_expr(&v["b"]);
    let seq = |x: &Value| -> Vec<E> {
        x.as_array().cloned().unwrap_or_default().iter().map(build_expr).collect()
    };
    match str_of(&v["k"]) {
        "none" => E::None,
        "list" => E::List(seq(&v["items"])),
        "map" => E::Map(
            v["pairs"].as_array().cloned().unwrap_or_default().iter()
                .map(|p| (build_expr(&p["a"]), build_expr(&p["b"]))).collect(),
        ),
        "tuple" => E::Tuple(Box::new((a(), bb()))),
        "struct" => E::Struct(tir::StructExpr {
            constructor: v["ctor"].as_u64().unwrap_or(0) as usize,
            fields: seq(&v["fields"]),
        }),
        "bytes" => E::Bytes(bytes_from(&v["v"])),
        "number" => E::Number(int_from(&v["num"])),
        "bool" => E::Bool(v["flag"].as_bool().unwrap_or(false)),
        "string" => E::String(String::from_utf8_lossy(&bytes_from(&v["v"])).to_string()),
        "address" => E::Address(bytes_from(&v["v"])),
        "hash" => E::Hash(bytes_from(&v["v"])),
        "utxo_refs" => E::UtxoRefs(
            v["refs"].as_array().cloned().unwrap_or_default().iter().map(ref_from).collect(),
        ),
        "utxo_set" => E::UtxoSet(utxo_set_from(&v["utxos"])),
        "assets" => E::Assets(
            v["items"].as_array().cloned().unwrap_or_default().iter()
                .map(|x| tir::AssetExpr {
                    policy: build_expr(&x["policy"]),
                    asset_name: build_expr(&x["name"]),
                    amount: build_expr(&x["amount"]),
                }).collect(),
        ),
        "p_set" => E::EvalParam(Box::new(tir::Param::Set(a()))),
        "p_value" => E::EvalParam(Box::new(tir::Param::ExpectValue(
            str_of(&v["name"]).to_string(),
            type_from(str_of(&v["ty"])),
        ))),
        "p_input" => E::EvalParam(Box::new(tir::Param::ExpectInput(
            str_of(&v["name"]).to_string(),
            query_from(&v["q"]),
        ))),
        "p_fees" => E::EvalParam(Box::new(tir::Param::ExpectFees)),
        "add" => E::EvalBuiltIn(Box::new(tir::BuiltInOp::Add(a(), bb()))),
        "sub" => E::EvalBuiltIn(Box::new(tir::BuiltInOp::Sub(a(), bb()))),
        "concat" => E::EvalBuiltIn(Box::new(tir::BuiltInOp::Concat(a(), bb()))),
        "property" => E::EvalBuiltIn(Box::new(tir::BuiltInOp::Property(a(), bb()))),
        "negate" => E::EvalBuiltIn(Box::new(tir::BuiltInOp::Negate(a()))),
        "noop" => E::EvalBuiltIn(Box::new(tir::BuiltInOp::NoOp(a()))),
        "c_script_address" => E::EvalCompiler(Box::new(tir::CompilerOp::BuildScriptAddress(a()))),
        "c_min_utxo" => E::EvalCompiler(Box::new(tir::CompilerOp::ComputeMinUtxo(a()))),
        "c_tip_slot" => E::EvalCompiler(Box::new(tir::CompilerOp::ComputeTipSlot)),
        "c_slot_to_time" => E::EvalCompiler(Box::new(tir::CompilerOp::ComputeSlotToTime(a()))),
        "c_time_to_slot" => E::EvalCompiler(Box::new(tir::CompilerOp::ComputeTimeToSlot(a()))),
        "co_noop" => E::EvalCoerce(Box::new(tir::Coerce::NoOp(a()))),
        "into_assets" => E::EvalCoerce(Box::new(tir::Coerce::IntoAssets(a()))),
        "into_datum" => E::EvalCoerce(Box::new(tir::Coerce::IntoDatum(a()))),
        "into_script" => E::EvalCoerce(Box::new(tir::Coerce::IntoScript(a()))),
        "adhoc" => E::AdHocDirective(Box::new(adhoc_from(v))),
        other => panic!("driver: unknown expr tag {other:?} in {v}"),
    }
}

pub fn proj_expr(e: &tir::Expression) -> Value {
    use tir::Expression as E;
    let seq = |xs: &[E]| Value::Array(xs.iter().map(proj_expr).collect());
    match e {
        E::None => json!({"k": "none"}),
        E::List(x) => json!({"k": "list", "items": seq(x)}),
        E::Map(x) => json!({"k": "map", "pairs": x.iter().map(|(a, b)| json!({"a": proj_expr(a), "b": proj_expr(b)})).collect::<Vec<_>>()}),
        E::Tuple(x) => json!({"k": "tuple", "a": proj_expr(&x.0), "b": proj_expr(&x.1)}),
        E::Struct(x) => json!({"k": "struct", "ctor": x.constructor, "fields": seq(&x.fields)}),
        E::Bytes(x) => json!({"k": "bytes", "v": bytes_to(x)}),
        E::Number(x) => json!({"k": "number", "num": int_to(*x)}),
        E::Bool(x) => json!({"k": "bool", "flag": x}),
        E::String(x) => json!({"k": "string", "v": bytes_to(x.as_bytes())}),
        E::Address(x) => json!({"k": "address", "v": bytes_to(x)}),
        E::Hash(x) => json!({"k": "hash", "v": bytes_to(x)}),
        E::UtxoRefs(x) => json!({"k": "utxo_refs", "refs": x.iter().map(ref_to).collect::<Vec<_>>()}),
        E::UtxoSet(x) => {
            let mut us: Vec<&Utxo> = x.iter().collect();
            us.sort_by(|a, b| (a.r#ref.txid.clone(), a.r#ref.index).cmp(&(b.r#ref.txid.clone(), b.r#ref.index)));
            json!({"k": "utxo_set", "utxos": us.iter().map(|u| utxo_to(u)).collect::<Vec<_>>()})
        }
        E::Assets(x) => json!({"k": "assets", "items": x.iter().map(|i| json!({
            "policy": proj_expr(&i.policy), "name": proj_expr(&i.asset_name), "amount": proj_expr(&i.amount)})).collect::<Vec<_>>()}),
        E::EvalParam(p) => match p.as_ref() {
            tir::Param::Set(x) => json!({"k": "p_set", "a": proj_expr(x)}),
            tir::Param::ExpectValue(n, t) => json!({"k": "p_value", "name": n, "ty": type_to(t)}),
            tir::Param::ExpectInput(n, q) => json!({"k": "p_input", "name": n, "q": query_to(q)}),
            tir::Param::ExpectFees => json!({"k": "p_fees"}),
        },
        E::EvalBuiltIn(op) => match op.as_ref() {
            tir::BuiltInOp::NoOp(a) => json!({"k": "noop", "a": proj_expr(a)}),
            tir::BuiltInOp::Add(a, b) => json!({"k": "add", "a": proj_expr(a), "b": proj_expr(b)}),
            tir::BuiltInOp::Sub(a, b) => json!({"k": "sub", "a": proj_expr(a), "b": proj_expr(b)}),
            tir::BuiltInOp::Concat(a, b) => json!({"k": "concat", "a": proj_expr(a), "b": proj_expr(b)}),
            tir::BuiltInOp::Negate(a) => json!({"k": "negate", "a": proj_expr(a)}),
            tir::BuiltInOp::Property(a, b) => json!({"k": "property", "a": proj_expr(a), "b": proj_expr(b)}),
        },
        E::EvalCompiler(op) => match op.as_ref() {
            tir::CompilerOp::BuildScriptAddress(a) => json!({"k": "c_script_address", "a": proj_expr(a)}),
            tir::CompilerOp::ComputeMinUtxo(a) => json!({"k": "c_min_utxo", "a": proj_expr(a)}),
            tir::CompilerOp::ComputeTipSlot => json!({"k": "c_tip_slot"}),
            tir::CompilerOp::ComputeSlotToTime(a) => json!({"k": "c_slot_to_time", "a": proj_expr(a)}),
            tir::CompilerOp::ComputeTimeToSlot(a) => json!({"k": "c_time_to_slot", "a": proj_expr(a)}),
        },
        E::EvalCoerce(c) => match c.as_ref() {
            tir::Coerce::NoOp(a) => json!({"k": "co_noop", "a": proj_expr(a)}),
            tir::Coerce::IntoAssets(a) => json!({"k": "into_assets", "a": proj_expr(a)}),
            tir::Coerce::IntoDatum(a) => json!({"k": "into_datum", "a": proj_expr(a)}),
            tir::Coerce::IntoScript(a) => json!({"k": "into_script", "a": proj_expr(a)}),
        },
        E::AdHocDirective(a) => json!({"k": "adhoc", "name": a.name, "data": adhoc_data_to(a)}),
    }
}

pub fn build_tx(v: &Value) -> tir::Tx {
    let seq = |x: &Value| -> Vec<Value> { x.as_array().cloned().unwrap_or_default() };
    tir::Tx {
        fees: build_expr(&v["fees"]),
        references: seq(&v["references"]).iter().map(build_expr).collect(),
        inputs: seq(&v["inputs"]).iter().map(|i| tir::Input {
            name: str_of(&i["name"]).to_string(),
            utxos: build_expr(&i["utxos"]),
            redeemer: build_expr(&i["redeemer"]),
        }).collect(),
        outputs: seq(&v["outputs"]).iter().map(|o| tir::Output {
            address: build_expr(&o["address"]),
            datum: build_expr(&o["datum"]),
            amount: build_expr(&o["amount"]),
            optional: o["optional"].as_bool().unwrap_or(false),
        }).collect(),
        validity: if str_of(&v["validity"]["k"]) == "some" {
            Some(tir::Validity { since: build_expr(&v["validity"]["since"]), until: build_expr(&v["validity"]["until"]) })
        } else { None },
        mints: seq(&v["mints"]).iter().map(|m| tir::Mint { amount: build_expr(&m["amount"]), redeemer: build_expr(&m["redeemer"]) }).collect(),
        burns: seq(&v["burns"]).iter().map(|m| tir::Mint { amount: build_expr(&m["amount"]), redeemer: build_expr(&m["redeemer"]) }).collect(),
        adhoc: seq(&v["adhoc"]).iter().map(adhoc_from).collect(),
        collateral: seq(&v["collateral"]).iter().map(|c| tir::Collateral { utxos: build_expr(&c["utxos"]) }).collect(),
        signers: if str_of(&v["signers"]["k"]) == "some" {
            Some(tir::Signers { signers: seq(&v["signers"]["items"]).iter().map(build_expr).collect() })
        } else { None },
        metadata: seq(&v["metadata"]).iter().map(|m| tir::Metadata { key: build_expr(&m["key"]), value: build_expr(&m["value"]) }).collect(),
    }
}

pub fn proj_tx(t: &tir::Tx) -> Value {
    json!({
        "fees": proj_expr(&t.fees),
        "references": t.references.iter().map(proj_expr).collect::<Vec<_>>(),
        "inputs": t.inputs.iter().map(|i| json!({"name": i.name, "utxos": proj_expr(&i.utxos), "redeemer": proj_expr(&i.redeemer)})).collect::<Vec<_>>(),
        "outputs": t.outputs.iter().map(|o| json!({"address": proj_expr(&o.address), "datum": proj_expr(&o.datum), "amount": proj_expr(&o.amount), "optional": o.optional})).collect::<Vec<_>>(),
        "validity": match &t.validity { Some(v) => json!({"k": "some", "since": proj_expr(&v.since), "until": proj_expr(&v.until)}), None => json!({"k": "none"}) },
        "mints": t.mints.iter().map(|m| json!({"amount": proj_expr(&m.amount), "redeemer": proj_expr(&m.redeemer)})).collect::<Vec<_>>(),
        "burns": t.burns.iter().map(|m| json!({"amount": proj_expr(&m.amount), "redeemer": proj_expr(&m.redeemer)})).collect::<Vec<_>>(),
        "adhoc": t.adhoc.iter().map(|a| json!({"name": a.name, "data": adhoc_data_to(a)})).collect::<Vec<_>>(),
        "collateral": t.collateral.iter().map(|c| json!({"utxos": proj_expr(&c.utxos)})).collect::<Vec<_>>(),
        "signers": match &t.signers { Some(s) => json!({"k": "some", "items": s.signers.iter().map(proj_expr).collect::<Vec<_>>()}), None => json!({"k": "none"}) },
        "metadata": t.metadata.iter().map(|m| json!({"key": proj_expr(&m.key), "value": proj_expr(&m.value)})).collect::<Vec<_>>(),
    })
}

/// A constant abstract term as an argument value.
pub fn arg_from(v: &Value) -> ArgValue {
    match str_of(&v["k"]) {
        "number" => ArgValue::Int(int_from(&v["num"])),
        "bool" => ArgValue::Bool(v["flag"].as_bool().unwrap_or(false)),
        "string" => ArgValue::String(String::from_utf8_lossy(&bytes_from(&v["v"])).to_string()),
        "bytes" => ArgValue::Bytes(bytes_from(&v["v"])),
        "address" => ArgValue::Address(bytes_from(&v["v"])),
        "utxo_refs" => ArgValue::UtxoRef(ref_from(&v["refs"][0])),
        "utxo_set" => ArgValue::UtxoSet(utxo_set_from(&v["utxos"])),
        other => panic!("driver: cannot make an argument from {other:?}"),
    }
}

pub fn args_from(v: &Value) -> std::collections::BTreeMap<String, ArgValue> {
    let mut m = std::collections::BTreeMap::new();
    if let Some(o) = v.as_object() {
        for (k, x) in o {
            m.insert(k.clone(), arg_from(x));
        }
    }
    m
}

/// Independent walk over the serde serialisation (as a ciborium value tree) of a TIR value:
/// collects the names of every `ExpectValue` / `ExpectInput` node and whether an `ExpectFees`
/// or compiler-op node exists, wherever it sits.  It knows nothing about `Composite`.
pub fn serde_walk(t: &tir::Tx) -> Value {
    use ciborium::Value as C;
    let v = C::serialized(t).unwrap_or(C::Null);
    let mut params = std::collections::BTreeSet::new();
    let mut queries = std::collections::BTreeSet::new();
    let mut fees = false;
    let mut cops = 0u64;
    fn first_text(x: &C) -> Option<String> {
        match x {
            C::Array(a) => a.first().and_then(|n| n.as_text()).map(|s| s.to_string()),
            _ => None,
        }
    }
    // `inq`: inside the query of an ExpectInput node (such a nested query disappears when the
    // enclosing input is supplied, so it is not one the template has to report)
    fn go(
        v: &C,
        params: &mut std::collections::BTreeSet<String>,
        queries: &mut std::collections::BTreeSet<String>,
        fees: &mut bool,
        cops: &mut u64,
        inq: bool,
    ) {
        match v {
            C::Map(m) => {
                for (k, x) in m {
                    match k.as_text() {
                        Some("ExpectValue") => {
                            if let Some(n) = first_text(x) {
                                params.insert(n);
                            }
                        }
                        Some("ExpectInput") => {
                            if let Some(n) = first_text(x) {
                                if !inq {
                                    queries.insert(n);
                                }
                            }
                            go(x, params, queries, fees, cops, true);
                            continue;
                        }
                        Some("EvalCompiler") => {
                            *cops += 1;
                        }
                        _ => {}
                    }
                    go(k, params, queries, fees, cops, inq);
                    go(x, params, queries, fees, cops, inq);
                }
            }
            C::Array(a) => a.iter().for_each(|x| go(x, params, queries, fees, cops, inq)),
            C::Tag(_, x) => go(x, params, queries, fees, cops, inq),
            C::Text(s) => {
                if s == "ExpectFees" {
                    *fees = true;
                }
            }
            _ => {}
        }
    }
    go(&v, &mut params, &mut queries, &mut fees, &mut cops, false);
    json!({"params": params.into_iter().collect::<Vec<_>>(), "queries": queries.into_iter().collect::<Vec<_>>(), "fees": fees, "cops": cops})
}
