//! A small independent CBOR reader (RFC 8949), written for the projection of emitted
//! transactions.  It keeps the framing facts the properties talk about (definite vs
//! indefinite length, tags, byte offsets of every item) and nothing else.

#[derive(Debug, Clone, PartialEq)]
pub enum Cbor {
    UInt(u64),
    NInt(u64),                 // value is -1 - n
    Bytes(Vec<u8>, bool),      // (content, was_indefinite)
    Text(String),
    Array(Vec<Item>, bool),    // (items, was_indefinite)
    Map(Vec<(Item, Item)>, bool),
    Tag(u64, Box<Item>),
    Simple(u8),
    Float,
}

#[derive(Debug, Clone, PartialEq)]
pub struct Item {
    pub v: Cbor,
    pub start: usize,
    pub end: usize,
    /// the head's argument was encoded in the minimal number of bytes
    pub minimal: bool,
}

pub struct Reader<'a> {
    pub b: &'a [u8],
    pub pos: usize,
    depth: usize,
}

impl<'a> Reader<'a> {
    pub fn new(b: &'a [u8]) -> Self {
        Self { b, pos: 0, depth: 0 }
    }

    fn byte(&mut self) -> Result<u8, String> {
        let x = *self.b.get(self.pos).ok_or("eof")?;
        self.pos += 1;
        Ok(x)
    }

    fn arg(&mut self, info: u8) -> Result<(Option<u64>, bool), String> {
        match info {
            0..=23 => Ok((Some(info as u64), true)),
            24 => {
                let v = self.byte()? as u64;
                Ok((Some(v), v >= 24))
            }
            25 => {
                let mut v = 0u64;
                for _ in 0..2 {
                    v = (v << 8) | self.byte()? as u64;
                }
                Ok((Some(v), v > 0xff))
            }
            26 => {
                let mut v = 0u64;
                for _ in 0..4 {
                    v = (v << 8) | self.byte()? as u64;
                }
                Ok((Some(v), v > 0xffff))
            }
            27 => {
                let mut v = 0u64;
                for _ in 0..8 {
                    v = (v << 8) | self.byte()? as u64;
                }
                Ok((Some(v), v > 0xffff_ffff))
            }
            31 => Ok((None, true)),
            _ => Err("reserved additional info".into()),
        }
    }

    pub fn item(&mut self) -> Result<Item, String> {
        self.depth += 1;
        if self.depth > 512 {
            return Err("too deep".into());
        }
        let start = self.pos;
        let ib = self.byte()?;
        let (major, info) = (ib >> 5, ib & 0x1f);
        let (arg, minimal) = self.arg(info)?;
        let v = match major {
            0 => Cbor::UInt(arg.ok_or("indef uint")?),
            1 => Cbor::NInt(arg.ok_or("indef nint")?),
            2 | 3 => {
                let (bytes, indef) = match arg {
                    Some(n) => {
                        let n = n as usize;
                        let s = self.b.get(self.pos..self.pos + n).ok_or("eof in string")?.to_vec();
                        self.pos += n;
                        (s, false)
                    }
                    None => {
                        let mut acc = vec![];
                        loop {
                            if *self.b.get(self.pos).ok_or("eof")? == 0xff {
                                self.pos += 1;
                                break;
                            }
                            let chunk = self.item()?;
                            match chunk.v {
                                Cbor::Bytes(c, false) => acc.extend(c),
                                Cbor::Text(c) => acc.extend(c.into_bytes()),
                                _ => return Err("bad chunk".into()),
                            }
                        }
                        (acc, true)
                    }
                };
                if major == 2 {
                    Cbor::Bytes(bytes, indef)
                } else {
                    Cbor::Text(String::from_utf8(bytes).map_err(|_| "bad utf8")?)
                }
            }
            4 => {
                let mut items = vec![];
                match arg {
                    Some(n) => {
                        for _ in 0..n {
                            items.push(self.item()?);
                        }
                        Cbor::Array(items, false)
                    }
                    None => {
                        while *self.b.get(self.pos).ok_or("eof")? != 0xff {
                            items.push(self.item()?);
                        }
                        self.pos += 1;
                        Cbor::Array(items, true)
                    }
                }
            }
            5 => {
                let mut items = vec![];
                match arg {
                    Some(n) => {
                        for _ in 0..n {
                            let k = self.item()?;
                            let v = self.item()?;
                            items.push((k, v));
                        }
                        Cbor::Map(items, false)
                    }
                    None => {
                        while *self.b.get(self.pos).ok_or("eof")? != 0xff {
                            let k = self.item()?;
                            let v = self.item()?;
                            items.push((k, v));
                        }
                        self.pos += 1;
                        Cbor::Map(items, true)
                    }
                }
            }
            6 => Cbor::Tag(arg.ok_or("indef tag")?, Box::new(self.item()?)),
            _ => match info {
                25 | 26 | 27 => Cbor::Float,
                _ => Cbor::Simple(arg.unwrap_or(31) as u8),
            },
        };
        self.depth -= 1;
        Ok(Item { v, start, end: self.pos, minimal })
    }
}

pub fn parse(b: &[u8]) -> Result<Item, String> {
    let mut r = Reader::new(b);
    let it = r.item()?;
    if r.pos != b.len() {
        return Err(format!("trailing bytes: {} of {}", r.pos, b.len()));
    }
    Ok(it)
}

impl Item {
    pub fn map_get(&self, key: u64) -> Option<&Item> {
        match &self.v {
            Cbor::Map(m, _) => m.iter().find(|(k, _)| k.v == Cbor::UInt(key)).map(|(_, v)| v),
            _ => None,
        }
    }
    pub fn as_u64(&self) -> Option<u64> {
        match &self.v {
            Cbor::UInt(n) => Some(*n),
            _ => None,
        }
    }
    pub fn as_bytes(&self) -> Option<&[u8]> {
        match &self.v {
            Cbor::Bytes(b, _) => Some(b),
            _ => None,
        }
    }
    /// array items, looking through the set tag 258
    pub fn as_list(&self) -> Option<&[Item]> {
        match &self.v {
            Cbor::Array(a, _) => Some(a),
            Cbor::Tag(258, inner) => inner.as_list(),
            _ => None,
        }
    }
    pub fn as_map(&self) -> Option<&[(Item, Item)]> {
        match &self.v {
            Cbor::Map(m, _) => Some(m),
            _ => None,
        }
    }
    pub fn raw<'a>(&self, whole: &'a [u8]) -> &'a [u8] {
        &whole[self.start..self.end]
    }
}
