//! C14: the back end on arbitrary decodable IR and hostile arguments.  Every stage is run
//! under `guarded`; the outcome alphabet is {ok, err} (see spec/Backend.tla).

use crate::aj::*;
use crate::ctx;
use crate::guarded;
use crate::lang;
use crate::pipeline;
use crate::staging;
use crate::tirj;
use serde_json::{json, Value};
use tx3_tir::encoding::AnyTir;
use tx3_tir::model::v1beta0 as tir;

fn template_of(case: &Value) -> Result<tir::Tx, Value> {
    if !case["tx"].is_null() {
        return guarded(|| tirj::build_tx(&case["tx"])).map_err(|p| json!({"ev": "Stage", "name": "build", "outcome": "tool", "site": p["file"], "msg": p["msg"]}));
    }
    match lang::lower_source(str_of(&case["source"])) {
        lang::Front::Ok(txs) => txs.get(str_of(&case["txname"])).cloned().ok_or(json!({"ev": "Stage", "name": "front", "outcome": "err", "kind": "no-such-tx", "site": "", "msg": ""})),
        f => {
            let e = lang::front_event(&f);
            let outcome = if e["outcome"] == "panic" { "panic" } else { "err" };
            Err(json!({"ev": "Stage", "name": "front", "outcome": outcome, "kind": e["outcome"], "site": e["site"].as_str().unwrap_or(""), "msg": e["msg"].as_str().unwrap_or("")}))
        }
    }
}

pub fn run(case: &Value) -> Value {
    let mut events = vec![];
    let t = match template_of(case) {
        Ok(t) => t,
        Err(e) => {
            events.push(e);
            return json!({"events": events});
        }
    };
    let args = match guarded(|| tirj::args_from(&case["args"])) {
        Ok(a) => a,
        Err(p) => return json!({"events": [{"ev": "Stage", "name": "args", "outcome": "tool", "site": p["file"], "msg": p["msg"], "kind": ""}]}),
    };
    let fee = int_from(&case["fee"]) as u64;
    // 1. the staged path with directly supplied inputs
    if !case["utxos"].is_null() {
        let inputs = staging::inputs_from(&case["utxos"]);
        let mut compiler = ctx::make_compiler(&case["cfg"]);
        match pipeline::stage_all(t.clone(), &args, &inputs, fee, &mut compiler) {
            pipeline::Staged::Ok(tx) => {
                events.push(json!({"ev": "Stage", "name": "apply+reduce", "outcome": "ok", "kind": "", "site": "", "msg": ""}));
                let r = pipeline::compile_and_project(&tx, &mut compiler);
                events.push(json!({"ev": "Stage", "name": "compile", "outcome": r["outcome"], "kind": r["kind"], "site": r["site"], "msg": r["msg"]}));
            }
            pipeline::Staged::Err(stage, kind) => events.push(json!({"ev": "Stage", "name": stage, "outcome": "err", "kind": kind, "site": "", "msg": ""})),
            pipeline::Staged::Panic(stage, p) => events.push(json!({"ev": "Stage", "name": stage, "outcome": "panic", "kind": "", "site": p["file"], "msg": p["msg"]})),
        }
    }
    // 2. the resolver path with a store (optionally on a compiler that compiled something before)
    if !case["store"].is_null() {
        let store = ctx::RecStore::from_json(&case["store"]);
        let mut compiler = ctx::make_compiler(&case["cfg"]);
        if case["history"].as_bool().unwrap_or(false) {
            // leave a body with zero outputs behind
            let empty = tir::Tx { fees: tir::Expression::Number(0), references: vec![], inputs: vec![], outputs: vec![], validity: None,
                                  mints: vec![], burns: vec![], adhoc: vec![], collateral: vec![], signers: None, metadata: vec![] };
            let _ = guarded(|| tx3_tir::compile::Compiler::compile(&mut compiler, &AnyTir::V1Beta0(empty)));
        }
        let rounds = case["rounds"].as_u64().unwrap_or(3) as usize;
        let r = guarded(|| pollster::block_on(tx3_resolver::resolve_tx(AnyTir::V1Beta0(t.clone()), &args, &mut compiler, &store, rounds)));
        events.push(match r {
            Ok(Ok(_)) => json!({"ev": "Stage", "name": "resolve_tx", "outcome": "ok", "kind": "", "site": "", "msg": ""}),
            Ok(Err(e)) => json!({"ev": "Stage", "name": "resolve_tx", "outcome": "err", "kind": ctx::err_kind(&e), "site": "", "msg": ""}),
            Err(p) => json!({"ev": "Stage", "name": "resolve_tx", "outcome": "panic", "kind": "", "site": p["file"], "msg": p["msg"]}),
        });
    }
    for e in events.iter_mut() {
        for k in ["kind", "site", "msg"] {
            if e[k].is_null() {
                e[k] = json!("");
            }
        }
    }
    json!({"events": events})
}
