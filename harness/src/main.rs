//! tx3-driver: executes abstract cases (ndjson on stdin) on the real tx3 crates and writes
//! the projected observations (ndjson on stdout). One input line = one case = one output line.
//! A panic inside code under test is data (`{"panic": {file, msg}}`), never a crash of the driver.

use serde_json::{json, Value};
use std::cell::RefCell;
use std::io::{BufRead, Write};

pub mod aj;
pub mod assets;
pub mod tirj;
pub mod ctx;
pub mod staging;
pub mod wire;
pub mod select;
pub mod lang;
pub mod resolve;
pub mod pipeline;
pub mod frontend;
pub mod backend;
pub mod interop;
pub mod build;
pub mod cbor;
pub mod ledger;

thread_local! {
    static LAST_PANIC: RefCell<Option<(String, String)>> = RefCell::new(None);
}

/// Runs `f`, converting a panic into `Err({"file":..,"msg":..})`.
pub fn guarded<T>(f: impl FnOnce() -> T) -> Result<T, Value> {
    LAST_PANIC.with(|p| *p.borrow_mut() = None);
    match std::panic::catch_unwind(std::panic::AssertUnwindSafe(f)) {
        Ok(x) => Ok(x),
        Err(_) => {
            let (file, msg) = LAST_PANIC
                .with(|p| p.borrow_mut().take())
                .unwrap_or(("?".into(), "?".into()));
            Err(json!({"file": file, "msg": msg}))
        }
    }
}

fn install_hook() {
    std::panic::set_hook(Box::new(|info| {
        let file = info
            .location()
            .map(|l| l.file().to_string())
            .unwrap_or_default();
        // strip absolute prefixes so that sites are stable
        let file = file
            .rsplit_once("/crates/")
            .map(|(_, b)| format!("crates/{b}"))
            .or_else(|| file.rsplit_once("/registry/src/").map(|(_, b)| {
                b.split_once('/').map(|(_, c)| c.to_string()).unwrap_or(b.to_string())
            }))
            .unwrap_or(file);
        let msg = if let Some(s) = info.payload().downcast_ref::<&str>() {
            s.to_string()
        } else if let Some(s) = info.payload().downcast_ref::<String>() {
            s.clone()
        } else {
            "<non-string panic>".to_string()
        };
        let msg: String = msg.chars().take(160).collect();
        LAST_PANIC.with(|p| *p.borrow_mut() = Some((file, msg)));
    }));
}

fn dispatch(case: &Value) -> Value {
    let cmd = case["cmd"].as_str().unwrap_or("");
    match cmd {
        "assets" => assets::run(case),
        "staging" => staging::run(case),
        "wire" => wire::run(case),
        "select" => select::run(case),
        "resolve" => resolve::run(case),
        "pipeline" => pipeline::run(case),
        "frontend" => frontend::run(case),
        "backend" => backend::run(case),
        "interop" => interop::run(case),
        "build" => build::run(case),
        "ping" => json!({"pong": true}),
        other => json!({"tool_error": format!("unknown cmd {other}")}),
    }
}

fn main() {
    install_hook();
    let stdin = std::io::stdin();
    let stdout = std::io::stdout();
    let mut out = std::io::BufWriter::new(stdout.lock());
    for line in stdin.lock().lines() {
        let Ok(line) = line else { break };
        if line.trim().is_empty() {
            continue;
        }
        let case: Value = match serde_json::from_str(&line) {
            Ok(v) => v,
            Err(e) => {
                writeln!(out, "{}", json!({"tool_error": format!("bad json: {e}")})).unwrap();
                continue;
            }
        };
        let id = case.get("id").cloned().unwrap_or(Value::Null);
        // announce the case before running it so that an abort can be attributed
        writeln!(out, "{}", json!({"begin": id})).unwrap();
        out.flush().unwrap();
        let mut res = match guarded(|| dispatch(&case)) {
            Ok(v) => v,
            Err(p) => json!({"driver_panic": p}),
        };
        if let Value::Object(m) = &mut res {
            m.insert("id".into(), id);
        }
        writeln!(out, "{}", res).unwrap();
        out.flush().unwrap();
    }
}
