//! Construction of the real compiler / store from abstract configuration.

use crate::aj::*;
use crate::tirj;
use serde_json::{json, Value};
use std::collections::{HashMap, HashSet};
use std::sync::Mutex;
use tx3_cardano::{ChainPoint, Compiler, Config, PParams};
use tx3_resolver::{Error, UtxoPattern, UtxoStore};
use tx3_tir::model::assets::AssetClass;
use tx3_tir::model::core::{Utxo, UtxoRef, UtxoSet};

pub const COST_MODEL_V1: [i64; 166] = [
    100788, 420, 1, 1, 1000, 173, 0, 1, 1000, 59957, 4, 1, 11183, 32, 201305, 8356, 4, 16000, 100,
    16000, 100, 16000, 100, 16000, 100, 16000, 100, 16000, 100, 100, 100, 16000, 100, 94375, 32,
    132994, 32, 61462, 4, 72010, 178, 0, 1, 22151, 32, 91189, 769, 4, 2, 85848, 228465, 122, 0, 1,
    1, 1000, 42921, 4, 2, 24548, 29498, 38, 1, 898148, 27279, 1, 51775, 558, 1, 39184, 1000, 60594,
    1, 141895, 32, 83150, 32, 15299, 32, 76049, 1, 13169, 4, 22100, 10, 28999, 74, 1, 28999, 74, 1,
    43285, 552, 1, 44749, 541, 1, 33852, 32, 68246, 32, 72362, 32, 7243, 32, 7391, 32, 11546, 32,
    85848, 228465, 122, 0, 1, 1, 90434, 519, 0, 1, 74433, 32, 85848, 228465, 122, 0, 1, 1, 85848,
    228465, 122, 0, 1, 1, 270652, 22588, 4, 1457325, 64566, 4, 20467, 1, 4, 0, 141992, 32, 100788,
    420, 1, 1, 81663, 32, 59498, 32, 20142, 32, 24588, 32, 20744, 32, 25933, 32, 24623, 32,
    53384111, 14333, 10,
];

pub const COST_MODEL_V2: [i64; 175] = [
    100788, 420, 1, 1, 1000, 173, 0, 1, 1000, 59957, 4, 1, 11183, 32, 201305, 8356, 4, 16000, 100,
    16000, 100, 16000, 100, 16000, 100, 16000, 100, 16000, 100, 100, 100, 16000, 100, 94375, 32,
    132994, 32, 61462, 4, 72010, 178, 0, 1, 22151, 32, 91189, 769, 4, 2, 85848, 228465, 122, 0, 1,
    1, 1000, 42921, 4, 2, 24548, 29498, 38, 1, 898148, 27279, 1, 51775, 558, 1, 39184, 1000, 60594,
    1, 141895, 32, 83150, 32, 15299, 32, 76049, 1, 13169, 4, 22100, 10, 28999, 74, 1, 28999, 74, 1,
    43285, 552, 1, 44749, 541, 1, 33852, 32, 68246, 32, 72362, 32, 7243, 32, 7391, 32, 11546, 32,
    85848, 228465, 122, 0, 1, 1, 90434, 519, 0, 1, 74433, 32, 85848, 228465, 122, 0, 1, 1, 85848,
    228465, 122, 0, 1, 1, 955506, 213312, 0, 2, 270652, 22588, 4, 1457325, 64566, 4, 20467, 1, 4,
    0, 141992, 32, 100788, 420, 1, 1, 81663, 32, 59498, 32, 20142, 32, 24588, 32, 20744, 32, 25933,
    32, 24623, 32, 43053543, 10, 53384111, 14333, 10, 43574283, 26308, 10,
];

/// cfg: {network: 0|1, a, b, cpb, cost_models: "all"|"none"|"v1", extra_fees: null|n, slot, ts}
pub fn make_compiler(cfg: &Value) -> Compiler {
    let network = if cfg["network"].as_u64().unwrap_or(0) == 1 {
        tx3_cardano::Network::Mainnet
    } else {
        tx3_cardano::Network::Testnet
    };
    let mut cost_models = HashMap::new();
    match cfg["cost_models"].as_str().unwrap_or("all") {
        "none" => {}
        "v1" => {
            cost_models.insert(0, COST_MODEL_V1.to_vec());
        }
        _ => {
            cost_models.insert(0, COST_MODEL_V1.to_vec());
            cost_models.insert(1, COST_MODEL_V2.to_vec());
            cost_models.insert(2, COST_MODEL_V2.to_vec());
        }
    }
    let u = |k: &str, d: u64| -> u64 {
        let v = &cfg[k];
        if v.is_null() { d } else { int_from(v) as u64 }
    };
    let pparams = PParams {
        network,
        min_fee_coefficient: u("a", 44),
        min_fee_constant: u("b", 155381),
        coins_per_utxo_byte: u("cpb", 4310),
        cost_models,
    };
    let extra = if cfg["extra_fees"].is_null() { None } else { Some(int_from(&cfg["extra_fees"]) as u64) };
    let cursor = ChainPoint { slot: u("slot", 1000), hash: vec![], timestamp: u("ts", 1_700_000) as u128 };
    if cfg["construct"].as_str() == Some("reconfigured") {
        // a long-lived instance built under another margin and given this configuration afterwards (`config` is a
        // public field): what counts is the configuration in force when a transaction is compiled
        let mut c = Compiler::new(pparams, Config { extra_fees: Some(12_345) }, cursor);
        c.config = Config { extra_fees: extra };
        return c;
    }
    Compiler::new(pparams, Config { extra_fees: extra }, cursor)
}

/// In-memory store that records every call (the observation seam for input selection).
pub struct RecStore {
    pub utxos: Vec<Utxo>,
    pub log: Mutex<Vec<Value>>,
}

impl RecStore {
    pub fn new(utxos: Vec<Utxo>) -> Self {
        Self { utxos, log: Mutex::new(vec![]) }
    }
    pub fn from_json(v: &Value) -> Self {
        Self::new(v.as_array().cloned().unwrap_or_default().iter().map(tirj::utxo_from).collect())
    }
    pub fn take_log(&self) -> Vec<Value> {
        std::mem::take(&mut *self.log.lock().unwrap())
    }
}

fn sorted_refs(refs: &HashSet<UtxoRef>) -> Vec<Value> {
    let mut v: Vec<&UtxoRef> = refs.iter().collect();
    v.sort_by(|a, b| (a.txid.clone(), a.index).cmp(&(b.txid.clone(), b.index)));
    v.into_iter().map(tirj::ref_to).collect()
}

impl UtxoStore for RecStore {
    async fn narrow_refs(&self, pattern: UtxoPattern<'_>) -> Result<HashSet<UtxoRef>, Error> {
        let (desc, out): (Value, HashSet<UtxoRef>) = match pattern {
            UtxoPattern::ByAddress(a) => (
                json!({"by": "address", "address": bytes_to(a)}),
                self.utxos.iter().filter(|u| u.address == a).map(|u| u.r#ref.clone()).collect(),
            ),
            UtxoPattern::ByAssetPolicy(p) => (
                json!({"by": "policy", "policy": bytes_to(p)}),
                self.utxos.iter()
                    .filter(|u| u.assets.iter().any(|(c, n)| *n != 0 && matches!(c, AssetClass::Defined(pp, _) if pp == p)))
                    .map(|u| u.r#ref.clone()).collect(),
            ),
            UtxoPattern::ByAsset(p, n) => (
                json!({"by": "asset", "policy": bytes_to(p), "name": bytes_to(n)}),
                self.utxos.iter()
                    .filter(|u| u.assets.iter().any(|(c, amt)| *amt != 0 && matches!(c, AssetClass::Defined(pp, nn) if pp == p && nn == n)))
                    .map(|u| u.r#ref.clone()).collect(),
            ),
        };
        self.log.lock().unwrap().push(json!({"ev": "Narrow", "pattern": desc, "result": sorted_refs(&out)}));
        Ok(out)
    }

    async fn fetch_utxos(&self, refs: HashSet<UtxoRef>) -> Result<UtxoSet, Error> {
        let out: UtxoSet = self.utxos.iter().filter(|u| refs.contains(&u.r#ref)).cloned().collect();
        let got: HashSet<UtxoRef> = out.iter().map(|u| u.r#ref.clone()).collect();
        self.log.lock().unwrap().push(json!({"ev": "Fetch", "refs": sorted_refs(&refs), "returned": sorted_refs(&got)}));
        Ok(out)
    }
}

/// Short, stable name of an error (variant name, no payload).
pub fn err_kind<E: std::fmt::Debug>(e: &E) -> String {
    let s = format!("{e:?}");
    let end = s.find(|c: char| !(c.is_alphanumeric() || c == '_')).unwrap_or(s.len());
    s[..end].to_string()
}

/// Variant name with one level of nesting, e.g. `ReduceError(CompilerOpFailed(CoerceError`.
pub fn err_kind2<E: std::fmt::Debug>(e: &E) -> String {
    let s = format!("{e:?}");
    let mut out = String::new();
    let mut depth = 0;
    for c in s.chars() {
        if c.is_alphanumeric() || c == '_' {
            out.push(c);
        } else if c == '(' && depth < 2 {
            out.push('.');
            depth += 1;
        } else {
            break;
        }
    }
    out.trim_end_matches('.').to_string()
}

// ------------------------------------------------------------------------------------------
/// Recording wrapper around the real compiler: sees every round of `resolve_tx`
/// (the observation seam for the resolve loop, C05 / C20, and for the bound inputs, C04).
pub struct RecCompiler {
    pub inner: Compiler,
    pub log: Mutex<Vec<Value>>,
    pub project_rounds: bool,
}

impl RecCompiler {
    pub fn new(inner: Compiler) -> Self {
        Self { inner, log: Mutex::new(vec![]), project_rounds: true }
    }
    pub fn take_log(&self) -> Vec<Value> {
        std::mem::take(&mut *self.log.lock().unwrap())
    }
}

fn refs_of(e: &tx3_tir::model::v1beta0::Expression) -> Vec<Value> {
    use tx3_tir::model::v1beta0::Expression as E;
    let mut v: Vec<(Vec<u8>, u32)> = match e {
        E::UtxoSet(s) => s.iter().map(|u| (u.r#ref.txid.clone(), u.r#ref.index)).collect(),
        E::UtxoRefs(r) => r.iter().map(|r| (r.txid.clone(), r.index)).collect(),
        _ => vec![],
    };
    v.sort();
    v.into_iter().map(|(t, i)| json!({"txid": bytes_to(&t), "index": i})).collect()
}

impl tx3_tir::compile::Compiler for RecCompiler {
    type CompilerOp = tx3_tir::model::v1beta0::CompilerOp;
    type Expression = tx3_tir::model::v1beta0::Expression;

    fn compile(
        &mut self,
        tir: &tx3_tir::encoding::AnyTir,
    ) -> Result<tx3_tir::compile::CompiledTx, tx3_tir::compile::Error> {
        let had_mem = self.inner.latest_tx_body.is_some();
        let tx3_tir::encoding::AnyTir::V1Beta0(tx) = tir;
        let bound: Vec<Value> = tx.inputs.iter().map(|i| json!({"name": i.name, "refs": refs_of(&i.utxos)})).collect();
        let coll: Vec<Value> = tx.collateral.iter().flat_map(|c| refs_of(&c.utxos)).collect();
        let res = self.inner.compile(tir);
        let ev = match &res {
            Ok(c) => {
                let hctx = crate::ledger::HashCtx { cost_models: &self.inner.pparams.cost_models };
                let decoded = if self.project_rounds {
                    crate::ledger::project(&c.payload, &c.hash, Some(&hctx))
                } else {
                    Value::Null
                };
                json!({"ev": "Round", "had_mem": had_mem, "bound": bound, "collateral": coll, "outcome": "ok",
                       "reported": int_to(c.fee as i128), "len": c.payload.len(), "digest": hex::encode(crate::ledger::blake2b256(&c.payload)),
                       "hash": hex::encode(&c.hash), "decoded": decoded})
            }
            Err(e) => json!({"ev": "Round", "had_mem": had_mem, "bound": bound, "collateral": coll, "outcome": "err", "kind": err_kind(e)}),
        };
        self.log.lock().unwrap().push(ev);
        res
    }

    fn reset(&mut self) {
        tx3_tir::compile::Compiler::reset(&mut self.inner);
    }

    fn reduce_op(&self, op: Self::CompilerOp) -> Result<Self::Expression, tx3_tir::reduce::Error> {
        let is_min = matches!(op, tx3_tir::model::v1beta0::CompilerOp::ComputeMinUtxo(_));
        let idx = match &op {
            tx3_tir::model::v1beta0::CompilerOp::ComputeMinUtxo(x) => x.as_number().map(|n| n as i64).unwrap_or(-1),
            _ => -1,
        };
        let had_mem = self.inner.latest_tx_body.is_some();
        let res = self.inner.reduce_op(op);
        if is_min {
            let out = match &res {
                Ok(tx3_tir::model::v1beta0::Expression::Assets(a)) if a.len() == 1 => {
                    a[0].amount.as_number().map(int_to).unwrap_or(Value::Null)
                }
                _ => Value::Null,
            };
            self.log.lock().unwrap().push(json!({"ev": "MinUtxo", "had_mem": had_mem, "result": out, "ok": res.is_ok(), "index": idx}));
        }
        res
    }
}
