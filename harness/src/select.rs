//! C03 / C04: input selection through the public `tx3_resolver::inputs::resolve` with a
//! recording store, and end to end through `resolve_tx` with a recording compiler.

use crate::aj::*;
use crate::ctx;
use crate::guarded;
use crate::tirj;
use serde_json::{json, Value};
use tx3_tir::encoding::AnyTir;
use tx3_tir::model::v1beta0 as tir;

/// the same case with every lovelace amount (store and thresholds) counted in ADA: one unit covers a threshold of one
/// unit at fee 0 and no longer does once a real fee is added to it
fn scaled(v: &Value) -> Value {
    let mut v = v.clone();
    fn walk(x: &mut Value) {
        match x {
            Value::Array(a) => a.iter_mut().for_each(walk),
            Value::Object(m) => {
                let naked = m.get("c").map(|c| c["k"] == "naked").unwrap_or(false);
                if naked {
                    if let Some(n) = m.get("n").cloned() {
                        let scaled = int_from(&n) * 1_000_000;
                        m.insert("n".into(), int_to(scaled));
                    }
                }
                m.values_mut().for_each(walk);
            }
            _ => {}
        }
    }
    walk(&mut v);
    v
}

fn query_expr(q: &Value) -> tir::InputQuery {
    let address = if q["address"].is_null() { tir::Expression::None } else { tir::Expression::Address(bytes_from(&q["address"])) };
    let refs: Vec<_> = q["refs"].as_array().cloned().unwrap_or_default().iter().map(tirj::ref_from).collect();
    let r#ref = if refs.is_empty() { tir::Expression::None } else { tir::Expression::UtxoRefs(refs) };
    let min_amount = if q["min"].is_null() {
        tir::Expression::None
    } else {
        tir::Expression::Assets(
            q["min"].as_array().cloned().unwrap_or_default().iter().map(|e| {
                let c = &e["c"];
                let (p, n) = match str_of(&c["k"]) {
                    "defined" => (tir::Expression::Bytes(bytes_from(&c["policy"])), tir::Expression::Bytes(bytes_from(&c["name"]))),
                    "named" => (tir::Expression::None, tir::Expression::Bytes(bytes_from(&c["name"]))),
                    _ => (tir::Expression::None, tir::Expression::None),
                };
                tir::AssetExpr { policy: p, asset_name: n, amount: tir::Expression::Number(int_from(&e["n"])) }
            }).collect(),
        )
    };
    // a threshold that depends on the fee: it grows between the rounds of a resolution
    let min_amount = if q["plus_fees"].as_bool().unwrap_or(false) && !q["min"].is_null() {
        tir::Expression::EvalBuiltIn(Box::new(tir::BuiltInOp::Add(min_amount, tir::Param::ExpectFees.into())))
    } else {
        min_amount
    };
    tir::InputQuery { address, min_amount, r#ref, many: q["many"].as_bool().unwrap_or(false), collateral: q["collateral"].as_bool().unwrap_or(false) }
}

fn template(queries: &[Value], with_output: bool) -> tir::Tx {
    let mut inputs = vec![];
    let mut collateral = vec![];
    for q in queries {
        let name = str_of(&q["name"]).to_string();
        let param: tir::Expression = tir::Param::ExpectInput(name.clone(), query_expr(q)).into();
        if q["collateral"].as_bool().unwrap_or(false) {
            collateral.push(tir::Collateral { utxos: param });
        } else {
            inputs.push(tir::Input { name, utxos: param, redeemer: tir::Expression::None });
        }
    }
    let outputs = if with_output {
        vec![tir::Output {
            address: tir::Expression::Address({ let mut a = vec![0x60u8]; a.extend([7u8; 28]); a }),
            datum: tir::Expression::None,
            amount: tir::Expression::Assets(vec![tir::AssetExpr { policy: tir::Expression::None, asset_name: tir::Expression::None, amount: tir::Expression::Number(1_000_000) }]),
            optional: false,
        }]
    } else { vec![] };
    tir::Tx {
        fees: tir::Param::ExpectFees.into(), references: vec![], inputs, outputs, validity: None, mints: vec![], burns: vec![],
        adhoc: vec![], collateral, signers: None, metadata: vec![],
    }
}

fn bound_of(tx: &tir::Tx) -> Vec<Value> {
    let refs = |e: &tir::Expression| -> Vec<Value> {
        let inner = match e {
            tir::Expression::EvalParam(p) => match p.as_ref() { tir::Param::Set(x) => x.clone(), _ => e.clone() },
            _ => e.clone(),
        };
        match inner {
            tir::Expression::UtxoSet(s) => {
                let mut v: Vec<_> = s.iter().map(|u| (u.r#ref.txid.clone(), u.r#ref.index)).collect();
                v.sort();
                v.into_iter().map(|(t, i)| json!({"txid": bytes_to(&t), "index": i})).collect()
            }
            _ => vec![],
        }
    };
    let mut out: Vec<Value> = tx.inputs.iter().map(|i| json!({"name": i.name, "refs": refs(&i.utxos)})).collect();
    // collateral blocks are all named "collateral" by the lowering; report them under that name
    for c in &tx.collateral {
        out.push(json!({"name": "collateral", "refs": refs(&c.utxos)}));
    }
    out
}

pub fn run(case: &Value) -> Value {
    let queries = case["queries"].as_array().cloned().unwrap_or_default();
    let mut events = vec![];
    let reps = case["repeat"].as_u64().unwrap_or(1);
    for rep in 0..reps {
        let store = ctx::RecStore::from_json(&case["store"]);
        let tx = template(&queries, false);
        let res = guarded(|| pollster::block_on(tx3_resolver::inputs::resolve(AnyTir::V1Beta0(tx), &store)));
        events.push(json!({"ev": "Attempt", "n": rep}));
        events.extend(store.take_log());
        events.push(match res {
            Ok(Ok(AnyTir::V1Beta0(t))) => json!({"ev": "Resolved", "bound": bound_of(&t)}),
            Ok(Err(tx3_resolver::Error::InputNotResolved(name, _, _))) => json!({"ev": "NotResolved", "name": name}),
            Ok(Err(tx3_resolver::Error::InputQueryTooBroad)) => json!({"ev": "Error", "kind": "too-broad"}),
            Ok(Err(e)) => json!({"ev": "Error", "kind": ctx::err_kind(&e)}),
            Err(p) => json!({"ev": "Error", "kind": "panic", "site": p["file"], "msg": p["msg"]}),
        });
    }
    // end to end: as given; then in ADA units with the fee added to the threshold of the first regular block in name
    // order, and of every regular block (the thresholds then grow between the rounds of one resolution)
    let e2e = case["end_to_end"].as_bool().unwrap_or(false);
    for variant in ["plain", "first_plus_fees", "all_plus_fees"] {
        if !e2e {
            break;
        }
        let (store_json, queries): (Value, Vec<Value>) = if variant == "plain" {
            (case["store"].clone(), queries.clone())
        } else {
            let mut qs: Vec<Value> = queries.iter().map(scaled).collect();
            let mut names: Vec<String> = qs.iter().filter(|q| !q["collateral"].as_bool().unwrap_or(false)).map(|q| str_of(&q["name"]).to_string()).collect();
            names.sort();
            for q in qs.iter_mut() {
                let regular = !q["collateral"].as_bool().unwrap_or(false);
                let first = names.first().map(|n| n == str_of(&q["name"])).unwrap_or(false);
                if regular && (variant == "all_plus_fees" || first) {
                    q["plus_fees"] = json!(true);
                }
            }
            (scaled(&case["store"]), qs)
        };
        let store = ctx::RecStore::from_json(&store_json);
        let tx = template(&queries, true);
        let mut compiler = ctx::RecCompiler::new(ctx::make_compiler(&case["cfg"]));
        let args = std::collections::BTreeMap::new();
        let res = guarded(|| pollster::block_on(tx3_resolver::resolve_tx(AnyTir::V1Beta0(tx), &args, &mut compiler, &store, 3)));
        let rounds = compiler.take_log();
        let last = rounds.iter().rev().find(|r| r["ev"] == "Round" && r["outcome"] == "ok").cloned();
        events.push(match (res, last) {
            (Ok(Ok(c)), Some(r)) => {
                let hctx = crate::ledger::HashCtx { cost_models: &compiler.inner.pparams.cost_models };
                let d = crate::ledger::project(&c.payload, &c.hash, Some(&hctx));
                // the round whose payload was returned
                let same = rounds.iter().rev().find(|x| x["ev"] == "Round" && x["digest"] == hex::encode(crate::ledger::blake2b256(&c.payload))).cloned().unwrap_or(r);
                json!({"ev": "TxInputs", "outcome": "ok", "inputs": d["inputs"], "collateral": d["collateral"], "bound": same["bound"], "bound_collateral": same["collateral"]})
            }
            (Ok(Ok(_)), None) => json!({"ev": "TxInputs", "outcome": "err", "kind": "no-round"}),
            (Ok(Err(e)), _) => json!({"ev": "TxInputs", "outcome": "err", "kind": ctx::err_kind(&e)}),
            (Err(p), _) => json!({"ev": "TxInputs", "outcome": "panic", "site": p["file"], "msg": p["msg"]}),
        });
    }
    json!({"events": events})
}
