//! C15: the public API of `CanonicalAssets` as a register machine (see spec/AssetOps.tla).

use crate::aj::*;
use crate::guarded;
use serde_json::{json, Value};
use tx3_tir::model::assets::{AssetClass, CanonicalAssets};
use tx3_tir::model::v1beta0::AssetExpr;

pub fn class_to(c: &AssetClass) -> Value {
    match c {
        AssetClass::Naked => json!({"k": "naked"}),
        AssetClass::Named(n) => json!({"k": "named", "name": bytes_to(n)}),
        AssetClass::Defined(p, n) => {
            json!({"k": "defined", "policy": bytes_to(p), "name": bytes_to(n)})
        }
    }
}

pub fn class_from(v: &Value) -> AssetClass {
    match str_of(&v["k"]) {
        "named" => AssetClass::Named(bytes_from(&v["name"])),
        "defined" => AssetClass::Defined(bytes_from(&v["policy"]), bytes_from(&v["name"])),
        _ => AssetClass::Naked,
    }
}

/// Projection of a value: its non-zero entries (the abstract value) and the key set of
/// the representation (so that zero entries are visible to the specification).
pub fn project(a: &CanonicalAssets) -> Value {
    let mut entries: Vec<(AssetClass, i128)> =
        a.iter().map(|(c, n)| (c.clone(), *n)).collect();
    entries.sort();
    let abs: Vec<Value> = entries
        .iter()
        .filter(|(_, n)| *n != 0)
        .map(|(c, n)| json!({"c": class_to(c), "n": int_to(*n)}))
        .collect();
    let keys: Vec<Value> = entries.iter().map(|(c, _)| class_to(c)).collect();
    json!({"entries": abs, "keys": keys})
}

fn build(op: &Value, regs: &[CanonicalAssets]) -> CanonicalAssets {
    let n = int_from(&op["n"]);
    let i = op["i"].as_u64().unwrap_or(1) as usize - 1;
    let j = op["j"].as_u64().unwrap_or(1) as usize - 1;
    match str_of(&op["op"]) {
        "empty" => CanonicalAssets::empty(),
        "from_naked" => CanonicalAssets::from_naked_amount(n),
        "from_named" => CanonicalAssets::from_named_asset(&bytes_from(&op["name"]), n),
        "from_defined" => CanonicalAssets::from_defined_asset(
            &bytes_from(&op["policy"]),
            &bytes_from(&op["name"]),
            n,
        ),
        "from_asset" => {
            let p = opt_bytes_from(&op["policy"]);
            let nm = opt_bytes_from(&op["name"]);
            CanonicalAssets::from_asset(p.as_deref(), nm.as_deref(), n)
        }
        "from_class" => CanonicalAssets::from_class_and_amount(class_from(&op["class"]), n),
        "add" => regs[i].clone() + regs[j].clone(),
        "sub" => regs[i].clone() - regs[j].clone(),
        "neg" => -regs[i].clone(),
        "roundtrip" => {
            let exprs: Vec<AssetExpr> = regs[i].clone().into();
            CanonicalAssets::from(exprs)
        }
        "ir_sub3" | "ir_addsub" | "ir_subadd" | "ir_negsub" => {
            use tx3_tir::model::v1beta0::{BuiltInOp, Expression};
            use tx3_tir::reduce::Apply;
            let k = op["k"].as_u64().unwrap_or(1) as usize - 1;
            let list = |r: &CanonicalAssets| -> Expression { Expression::Assets(r.clone().into()) };
            let b = |o: BuiltInOp| Expression::EvalBuiltIn(Box::new(o));
            let e = match str_of(&op["op"]) {
                "ir_sub3" => b(BuiltInOp::Sub(b(BuiltInOp::Sub(list(&regs[i]), list(&regs[j]))), list(&regs[k]))),
                "ir_addsub" => b(BuiltInOp::Sub(b(BuiltInOp::Add(list(&regs[i]), list(&regs[j]))), list(&regs[k]))),
                "ir_subadd" => b(BuiltInOp::Add(b(BuiltInOp::Sub(list(&regs[i]), list(&regs[j]))), list(&regs[k]))),
                _ => b(BuiltInOp::Sub(b(BuiltInOp::Negate(list(&regs[i]))), list(&regs[j]))),
            };
            match e.reduce() {
                Ok(Expression::Assets(x)) => CanonicalAssets::from(x),
                Ok(Expression::None) => CanonicalAssets::empty(),
                Err(e) => panic!("ir_error: {e:?}"),
                other => panic!("driver: IR chain did not reduce to an asset list: {other:?}"),
            }
        }
        "relist" => {
            let mut exprs: Vec<AssetExpr> = regs[i].clone().into();
            let more: Vec<AssetExpr> = regs[j].clone().into();
            exprs.extend(more);
            CanonicalAssets::from(exprs)
        }
        other => panic!("driver: unknown assets op {other}"),
    }
}

pub fn run(case: &Value) -> Value {
    let mut regs: Vec<CanonicalAssets> = vec![];
    let mut events = vec![];
    for op in case["ops"].as_array().cloned().unwrap_or_default() {
        if str_of(&op["op"]) == "obs" {
            let i = op["i"].as_u64().unwrap_or(1) as usize - 1;
            let j = op["j"].as_u64().unwrap_or(1) as usize - 1;
            if i >= regs.len() || j >= regs.len() {
                continue; // the sequence was cut short by a panic
            }
            let (x, y) = (regs[i].clone(), regs[j].clone());
            let res = guarded(|| {
                // the same observers on copies rebuilt through `+` (which keeps no zero entry):
                // zero entries must be immaterial, whatever the sign of the other amounts
                let xn = CanonicalAssets::empty() + x.clone();
                let yn = CanonicalAssets::empty() + y.clone();
                json!({
                    "eq": x == y,
                    "is_empty": x.is_empty(),
                    "is_empty_or_negative": x.is_empty_or_negative(),
                    "is_only_naked": x.is_only_naked(),
                    "contains_total": x.contains_total(&y),
                    "contains_some": x.contains_some(&y),
                    "norm": {
                        "eq": xn == yn,
                        "is_empty": xn.is_empty(),
                        "is_empty_or_negative": xn.is_empty_or_negative(),
                        "is_only_naked": xn.is_only_naked(),
                        "contains_total": xn.contains_total(&yn),
                        "contains_some": xn.contains_some(&yn),
                    },
                })
            });
            let res = res.unwrap_or_else(|p| json!({"panic": p}));
            events.push(json!({"ev": "Obs", "i": i + 1, "j": j + 1, "res": res}));
            continue;
        }
        match guarded(|| build(&op, &regs)) {
            Ok(v) => {
                // the checked variants (used by the reducer) of the same operation: the same value, or None
                let checked = guarded(|| {
                    let i = op["i"].as_u64().unwrap_or(1) as usize - 1;
                    let j = op["j"].as_u64().unwrap_or(1) as usize - 1;
                    match str_of(&op["op"]) {
                        "add" => Some(regs[i].clone().checked_add(regs[j].clone())),
                        "sub" => Some(regs[j].clone().checked_neg().and_then(|n| regs[i].clone().checked_add(n))),
                        "neg" => Some(regs[i].clone().checked_neg()),
                        _ => None,
                    }
                });
                let checked = match checked {
                    Ok(None) => json!({"k": "na", "entries": []}),
                    Ok(Some(None)) => json!({"k": "none", "entries": []}),
                    Ok(Some(Some(c))) => json!({"k": "some", "entries": project(&c)["entries"]}),
                    Err(_) => json!({"k": "panic", "entries": []}),
                };
                let mut res = project(&v);
                res["checked"] = checked;
                events.push(json!({"ev": "Op", "op": op, "res": res}));
                regs.push(v);
            }
            Err(p) if str_of(&p["msg"]).starts_with("ir_error") => {
                // the reducer refused the chain (an intermediate amount left its integers): reported, not a panic
                events.push(json!({"ev": "Op", "op": op, "res": {"ir_error": p["msg"]}}));
                break;
            }
            Err(p) => {
                events.push(json!({"ev": "Op", "op": op, "res": {"panic": p}}));
                // the case ends here: later registers would depend on a value that does not exist
                break;
            }
        }
    }
    json!({"events": events})
}
