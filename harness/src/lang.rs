//! The language front end as a function of source text: parse, analyse, lower.

use crate::ctx;
use crate::guarded;
use serde_json::{json, Value};
use std::collections::BTreeMap;
use tx3_tir::model::v1beta0 as tir;

pub enum Front {
    Ok(BTreeMap<String, tir::Tx>),
    ParseErr(String),
    AnalyzeErr(usize, String),
    LowerErr(String, String),
    Panic(String, Value),
}

/// parse -> analyze -> lower(every tx); the stage at which it stopped is reported.
pub fn lower_source(src: &str) -> Front {
    let parsed = guarded(|| tx3_lang::parsing::parse_string(src));
    let mut ast = match parsed {
        Err(p) => return Front::Panic("parse".into(), p),
        Ok(Err(e)) => return Front::ParseErr(e.message.chars().take(120).collect()),
        Ok(Ok(a)) => a,
    };
    let report = guarded(|| tx3_lang::analyzing::analyze(&mut ast));
    let report = match report {
        Err(p) => return Front::Panic("analyze".into(), p),
        Ok(r) => r,
    };
    if !report.errors.is_empty() {
        return Front::AnalyzeErr(report.errors.len(), format!("{:?}", report.errors[0]).chars().take(160).collect());
    }
    let mut out = BTreeMap::new();
    let names: Vec<String> = ast.txs.iter().map(|t| t.name.value.clone()).collect();
    for name in names {
        let r = guarded(|| tx3_lang::lowering::lower(&ast, &name));
        match r {
            Err(p) => return Front::Panic("lower".into(), p),
            Ok(Err(e)) => return Front::LowerErr(name, ctx::err_kind(&e)),
            Ok(Ok(t)) => {
                out.insert(name, t);
            }
        }
    }
    Front::Ok(out)
}

pub fn front_event(f: &Front) -> Value {
    match f {
        Front::Ok(m) => json!({"ev": "Front", "outcome": "ok", "txs": m.keys().collect::<Vec<_>>()}),
        Front::ParseErr(m) => json!({"ev": "Front", "outcome": "parse-error", "msg": m}),
        Front::AnalyzeErr(n, m) => json!({"ev": "Front", "outcome": "analyze-error", "n": n, "msg": m}),
        Front::LowerErr(tx, k) => json!({"ev": "Front", "outcome": "lower-error", "tx": tx, "kind": k}),
        Front::Panic(stage, p) => json!({"ev": "Front", "outcome": "panic", "stage": stage, "site": p["file"], "msg": p["msg"]}),
    }
}
