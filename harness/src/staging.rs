//! C06 / C07: staged application of a template in an arbitrary schedule (see spec/Staging.tla).

use crate::aj::*;
use crate::ctx;
use crate::guarded;
use crate::tirj;
use serde_json::{json, Value};
use std::collections::{BTreeMap, HashSet};
use tx3_tir::encoding::AnyTir;
use tx3_tir::model::core::Utxo;
use tx3_tir::model::v1beta0 as tir;
use tx3_tir::reduce::{self, Apply as _, ArgValue};
use tx3_tir::Node as _;

pub fn tx_values(t: &tir::Tx) -> Vec<Value> {
    // the same slot order as TxKids in spec/Tir.tla
    let mut v = vec![tirj::proj_expr(&t.fees)];
    v.extend(t.references.iter().map(tirj::proj_expr));
    for i in &t.inputs {
        v.push(tirj::proj_expr(&i.utxos));
        v.push(tirj::proj_expr(&i.redeemer));
    }
    for o in &t.outputs {
        v.push(tirj::proj_expr(&o.address));
        v.push(tirj::proj_expr(&o.datum));
        v.push(tirj::proj_expr(&o.amount));
    }
    if let Some(val) = &t.validity {
        v.push(tirj::proj_expr(&val.since));
        v.push(tirj::proj_expr(&val.until));
    }
    for m in t.mints.iter().chain(t.burns.iter()) {
        v.push(tirj::proj_expr(&m.amount));
        v.push(tirj::proj_expr(&m.redeemer));
    }
    for a in &t.adhoc {
        let mut keys: Vec<_> = a.data.keys().cloned().collect();
        keys.sort();
        for k in keys {
            v.push(tirj::proj_expr(&a.data[&k]));
        }
    }
    for c in &t.collateral {
        v.push(tirj::proj_expr(&c.utxos));
    }
    if let Some(s) = &t.signers {
        v.extend(s.signers.iter().map(tirj::proj_expr));
    }
    for m in &t.metadata {
        v.push(tirj::proj_expr(&m.key));
        v.push(tirj::proj_expr(&m.value));
    }
    v
}

pub fn inputs_from(v: &Value) -> BTreeMap<String, HashSet<Utxo>> {
    let mut m = BTreeMap::new();
    if let Some(o) = v.as_object() {
        for (k, x) in o {
            let set = if x.get("utxos").is_some() { tirj::utxo_set_from(&x["utxos"]) } else { tirj::utxo_set_from(x) };
            m.insert(k.clone(), set);
        }
    }
    m
}

enum StepOut {
    Ok(tir::Tx),
    Err(String),
}

fn do_step(
    tx: tir::Tx,
    stage: &str,
    args: &BTreeMap<String, ArgValue>,
    inputs: &BTreeMap<String, HashSet<Utxo>>,
    fee: u64,
    compiler: &mut tx3_cardano::Compiler,
) -> StepOut {
    let r = match stage {
        "args" => reduce::apply_args(tx, args),
        "inputs" => reduce::apply_inputs(tx, inputs),
        "fees" => reduce::apply_fees(tx, fee),
        "cops" => tx.apply(compiler),
        "reduce" => reduce::reduce(tx),
        other => panic!("driver: unknown stage {other}"),
    };
    match r {
        Ok(t) => StepOut::Ok(t),
        Err(e) => StepOut::Err(ctx::err_kind2(&e)),
    }
}

/// reduce(reduce(t)) == reduce(t), judged on the projection (None when reduce itself fails)
fn idempotent(t: &tir::Tx) -> &'static str {
    let r = guarded(|| {
        let Ok(r1) = reduce::reduce(t.clone()) else { return "na" };
        let Ok(r2) = reduce::reduce(r1.clone()) else { return "no" };
        if tx_values(&r1) == tx_values(&r2) { "yes" } else { "no" }
    });
    r.unwrap_or("na")
}

pub fn run(case: &Value) -> Value {
    let template = tirj::build_tx(&case["tx"]);
    let env = &case["env"];
    let args = tirj::args_from(&env["args"]);
    let inputs = inputs_from(&env["inputs"]);
    let fee = int_from(&env["fee"]) as u64;
    let mut events = vec![];

    // what the code reports about the template
    let fp: Vec<String> = reduce::find_params(&template).keys().cloned().collect();
    let fq: Vec<String> = reduce::find_queries(&template).keys().cloned().collect();
    events.push(json!({"ev": "Template", "find_params": fp, "find_queries": fq, "walk": tirj::serde_walk(&template)}));

    // refusal when an argument is missing (C06)
    if case["refusals"].as_bool().unwrap_or(false) {
        let mut items = vec![];
        for p in &fp {
            let mut a = args.clone();
            // arguments for every reported parameter, then remove one
            for q in &fp {
                a.entry(q.clone()).or_insert(ArgValue::Int(0));
            }
            a.remove(p);
            let store = ctx::RecStore::new(vec![]);
            let mut compiler = ctx::make_compiler(&env["cfg"]);
            let res = guarded(|| {
                pollster::block_on(tx3_resolver::resolve_tx(
                    AnyTir::V1Beta0(template.clone()), &a, &mut compiler, &store, 3))
            });
            let item = match res {
                Ok(Err(tx3_resolver::Error::MissingTxArg { key, .. })) => json!({"param": p, "outcome": "missing", "key": key}),
                Ok(Err(e)) => json!({"param": p, "outcome": ctx::err_kind(&e), "key": ""}),
                Ok(Ok(_)) => json!({"param": p, "outcome": "compiled", "key": ""}),
                Err(pn) => json!({"param": p, "outcome": "panic", "key": "", "site": pn["file"], "msg": pn["msg"]}),
            };
            items.push(item);
            // the argument sent under another spelling of the key is no argument for the parameter either: the IR asks for
            // exactly the reported key (an argument the substitution would not find must not satisfy the check)
            let other = if p.to_uppercase() != *p { p.to_uppercase() } else { format!("{p}_") };
            if let Some(v) = args.get(p).cloned().or(Some(ArgValue::Int(0))) {
                a.insert(other, v);
            }
            let store = ctx::RecStore::new(vec![]);
            let mut compiler = ctx::make_compiler(&env["cfg"]);
            let res = guarded(|| {
                pollster::block_on(tx3_resolver::resolve_tx(
                    AnyTir::V1Beta0(template.clone()), &a, &mut compiler, &store, 3))
            });
            items.push(match res {
                Ok(Err(tx3_resolver::Error::MissingTxArg { key, .. })) => json!({"param": p, "outcome": "missing", "key": key}),
                Ok(Err(e)) => json!({"param": p, "outcome": format!("respelled:{}", ctx::err_kind(&e)), "key": ""}),
                Ok(Ok(_)) => json!({"param": p, "outcome": "respelled:compiled", "key": ""}),
                Err(pn) => json!({"param": p, "outcome": "respelled:panic", "key": "", "site": pn["file"], "msg": pn["msg"]}),
            });
        }
        events.push(json!({"ev": "Refusals", "items": items}));
    }

    // the intermediate template after every step is reported for the first `step_terms` schedules
    let with_terms = case["step_terms"].as_u64().unwrap_or(0) as usize;
    for (sched_no, sched) in case["scheds"].as_array().cloned().unwrap_or_default().into_iter().enumerate() {
        let steps: Vec<String> = sched.as_array().cloned().unwrap_or_default().iter().map(|s| str_of(s).to_string()).collect();
        events.push(json!({"ev": "Sched", "steps": steps}));
        let mut compiler = ctx::make_compiler(&env["cfg"]);
        let mut tx = Some(template.clone());
        let mut failure: Option<Value> = None;
        for st in &steps {
            let cur = tx.take().unwrap();
            let res = guarded(|| do_step(cur, st, &args, &inputs, fee, &mut compiler));
            match res {
                Ok(StepOut::Ok(t)) => {
                    let idem = idempotent(&t);
                    if sched_no < with_terms {
                        events.push(json!({"ev": "Step", "stage": st, "outcome": "ok", "idem": idem, "terms": tx_values(&t)}));
                    } else {
                        events.push(json!({"ev": "Step", "stage": st, "outcome": "ok", "idem": idem, "terms": []}));
                    }
                    tx = Some(t);
                }
                Ok(StepOut::Err(kind)) => {
                    events.push(json!({"ev": "Step", "stage": st, "outcome": "err", "idem": "na", "terms": []}));
                    failure = Some(json!({"ev": "Final", "outcome": "err", "stage": st, "kind": kind}));
                    break;
                }
                Err(p) => {
                    events.push(json!({"ev": "Step", "stage": st, "outcome": "panic", "idem": "na", "terms": []}));
                    failure = Some(json!({"ev": "Final", "outcome": "panic", "stage": st, "site": p["file"], "msg": p["msg"]}));
                    break;
                }
            }
        }
        match (failure, tx) {
            (Some(f), _) => events.push(f),
            (None, Some(t)) => events.push(json!({"ev": "Final", "outcome": "ok", "values": tx_values(&t),
                                                  "walk": tirj::serde_walk(&t), "constant": t.is_constant()})),
            _ => unreachable!(),
        }
    }
    json!({"events": events})
}
