//! C01 / C02 / C08 / C09 / C10: the whole pipeline on source text with directly supplied
//! arguments, input UTxOs and fee: parse, analyse, lower, apply, reduce, compile, decode.

use crate::aj::*;
use crate::ctx;
use crate::guarded;
use crate::lang;
use crate::staging;
use crate::tirj;
use serde_json::{json, Value};
use tx3_tir::compile::Compiler as _;
use tx3_tir::encoding::AnyTir;
use tx3_tir::model::v1beta0 as tir;
use tx3_tir::reduce::{self, Apply as _};
use tx3_tir::Node as _;

pub enum Staged {
    Ok(tir::Tx),
    Err(&'static str, String),
    Panic(&'static str, Value),
}

/// apply_args -> apply_fees -> compiler ops -> reduce -> apply_inputs -> reduce
pub fn stage_all(
    tx: tir::Tx,
    args: &reduce::ArgMap,
    inputs: &std::collections::BTreeMap<String, std::collections::HashSet<tx3_tir::model::core::Utxo>>,
    fee: u64,
    compiler: &mut tx3_cardano::Compiler,
) -> Staged {
    macro_rules! st {
        ($name:expr, $e:expr) => {
            match guarded(|| $e) {
                Ok(Ok(t)) => t,
                Ok(Err(e)) => return Staged::Err($name, ctx::err_kind2(&e)),
                Err(p) => return Staged::Panic($name, p),
            }
        };
    }
    let tx = st!("apply_args", reduce::apply_args(tx, args));
    let tx = st!("apply_fees", reduce::apply_fees(tx, fee));
    let tx = st!("compiler_ops", tx.apply(compiler));
    let tx = st!("reduce", reduce::reduce(tx));
    let tx = st!("apply_inputs", reduce::apply_inputs(tx, inputs));
    let tx = st!("reduce", reduce::reduce(tx));
    Staged::Ok(tx)
}

pub fn compile_and_project(tx: &tir::Tx, compiler: &mut tx3_cardano::Compiler) -> Value {
    if !tx.is_constant() {
        return json!({"outcome": "err", "stage": "constant", "kind": "NotConstant", "walk": tirj::serde_walk(tx)});
    }
    let any = AnyTir::V1Beta0(tx.clone());
    let r = guarded(|| compiler.compile(&any));
    match r {
        Ok(Ok(c)) => {
            let hctx = crate::ledger::HashCtx { cost_models: &compiler.pparams.cost_models };
            let d = crate::ledger::project(&c.payload, &c.hash, Some(&hctx));
            json!({"outcome": "ok", "decoded": d, "reported_fee": int_to(c.fee as i128),
                   "payload": hex::encode(&c.payload), "hash": hex::encode(&c.hash)})
        }
        Ok(Err(e)) => json!({"outcome": "err", "stage": "compile", "kind": ctx::err_kind(&e),
                             "detail": format!("{e:?}").chars().take(300).collect::<String>()}),
        Err(p) => json!({"outcome": "panic", "stage": "compile", "site": p["file"], "msg": p["msg"]}),
    }
}

thread_local! {
    // compiler instances that live as long as the driver process, one per configuration: with `shared_compiler` a case is
    // compiled on an instance that has served every earlier case of the process
    static SHARED: std::cell::RefCell<std::collections::HashMap<String, tx3_cardano::Compiler>> = std::cell::RefCell::new(Default::default());
}

pub fn run_one(src: &str, case: &Value) -> Value {
    if case["shared_compiler"].as_bool().unwrap_or(false) {
        let key = case["cfg"].to_string();
        let mut compiler = SHARED.with(|m| m.borrow_mut().remove(&key)).unwrap_or_else(|| ctx::make_compiler(&case["cfg"]));
        let out = run_one_on(src, case, &mut compiler);
        SHARED.with(|m| m.borrow_mut().insert(key, compiler));
        return out;
    }
    let mut compiler = ctx::make_compiler(&case["cfg"]);
    // a compiler that has served other transactions before: each earlier source is staged with the arguments of the
    // case and compiled on the same instance, its result ignored
    for h in case["history"].as_array().cloned().unwrap_or_default() {
        if let lang::Front::Ok(txs) = lang::lower_source(str_of(&h)) {
            if let Some(t) = txs.get(str_of(&case["tx"])) {
                let args = tirj::args_from(&case["args"]);
                let inputs = staging::inputs_from(&case["utxos"]);
                let fee = int_from(&case["fee"]) as u64;
                if let Staged::Ok(tx) = stage_all(t.clone(), &args, &inputs, fee, &mut compiler) {
                    let _ = compile_and_project(&tx, &mut compiler);
                }
            }
        }
    }
    run_one_on(src, case, &mut compiler)
}

fn run_one_on(src: &str, case: &Value, compiler: &mut tx3_cardano::Compiler) -> Value {
    let front = lang::lower_source(src);
    let lang::Front::Ok(txs) = &front else {
        let mut e = lang::front_event(&front);
        e["ev"] = json!("Pipeline");
        e["stage"] = json!("front");
        return e;
    };
    let Some(t) = txs.get(str_of(&case["tx"])) else {
        return json!({"ev": "Pipeline", "outcome": "err", "stage": "front", "kind": "no-such-tx"});
    };
    let mut args = tirj::args_from(&case["args"]);
    if case["args_via_request"].as_bool().unwrap_or(false) {
        // the integers arrive the way a request carries them: as JSON number literals read by the service's own
        // coercion. A literal it refuses is supplied typed instead (refusing is the boundary's right); one it accepts
        // is used as it came out
        for (_, v) in args.iter_mut() {
            if let tx3_tir::reduce::ArgValue::Int(n) = v {
                let text = n.to_string();
                let got = guarded(|| {
                    serde_json::from_str::<Value>(&text)
                        .ok()
                        .and_then(|j| tx3_resolver::interop::from_json(j, &tx3_tir::model::core::Type::Int).ok())
                });
                if let Ok(Some(a)) = got {
                    *v = a;
                }
            }
        }
    }
    let inputs = staging::inputs_from(&case["utxos"]);
    let fee = int_from(&case["fee"]) as u64;
    let mut out = match stage_all(t.clone(), &args, &inputs, fee, compiler) {
        Staged::Ok(tx) => compile_and_project(&tx, compiler),
        Staged::Err(stage, kind) => json!({"outcome": "err", "stage": stage, "kind": kind}),
        Staged::Panic(stage, p) => json!({"outcome": "panic", "stage": stage, "site": p["file"], "msg": p["msg"]}),
    };
    out["ev"] = json!("Pipeline");
    if case["with_tir"].as_bool().unwrap_or(false) {
        out["tir"] = tirj::proj_tx(t);
    }
    out
}

/// The argument-supplying facade (`Workspace::apply_args`) used the way a client supplies what is still reported:
/// in several calls.  The template it leaves must be the one a single call with all the arguments leaves.
fn facade_event(src: &str, case: &Value) -> Value {
    let args = tirj::args_from(&case["args"]);
    let name = str_of(&case["tx"]);
    let keys: Vec<String> = args.keys().cloned().collect();
    let r = guarded(|| -> Result<Value, String> {
        let lower = |steps: &[Vec<String>]| -> Result<Option<tir::Tx>, String> {
            let mut ws = tx3_lang::Workspace::from_string(src.to_string());
            ws.lower().map_err(|e| format!("{e:?}").chars().take(80).collect::<String>())?;
            for step in steps {
                let part: reduce::ArgMap = args.iter().filter(|(k, _)| step.contains(k)).map(|(k, v)| (k.clone(), v.clone())).collect();
                ws.apply_args(&part).map_err(|e| format!("{e:?}").chars().take(80).collect::<String>())?;
            }
            Ok(ws.tir(name).cloned())
        };
        let half = keys.len() / 2;
        let single = lower(&[keys.clone()])?;
        let two = lower(&[keys[..half].to_vec(), keys[half..].to_vec()])?;
        let one_by_one = lower(&keys.iter().map(|k| vec![k.clone()]).collect::<Vec<_>>())?;
        let proj = |t: &Option<tir::Tx>| t.as_ref().map(tirj::proj_tx).unwrap_or(Value::Null);
        let residual = |t: &Option<tir::Tx>| -> Vec<String> {
            t.as_ref().map(|t| reduce::find_params(t).keys().filter(|k| args.contains_key(*k)).cloned().collect()).unwrap_or_default()
        };
        Ok(json!({"ev": "Facade", "outcome": "ok",
                  "two_calls_same": proj(&single) == proj(&two), "one_by_one_same": proj(&single) == proj(&one_by_one),
                  "residual_two_calls": residual(&two), "residual_one_by_one": residual(&one_by_one), "residual_single": residual(&single)}))
    });
    match r {
        Ok(Ok(v)) => v,
        Ok(Err(e)) => json!({"ev": "Facade", "outcome": "err", "msg": e, "two_calls_same": true, "one_by_one_same": true,
                             "residual_two_calls": [], "residual_one_by_one": [], "residual_single": []}),
        Err(p) => json!({"ev": "Facade", "outcome": "panic", "msg": p["msg"], "two_calls_same": true, "one_by_one_same": true,
                         "residual_two_calls": [], "residual_one_by_one": [], "residual_single": []}),
    }
}

pub fn run(case: &Value) -> Value {
    let mut events = vec![];
    // the same program in several layouts
    for (i, src) in case["sources"].as_array().cloned().unwrap_or_default().iter().enumerate() {
        let mut e = run_one(str_of(src), case);
        e["layout"] = json!(i);
        if i > 0 {
            // later layouts only need the decoded transaction for comparison
            if let Some(o) = e.as_object_mut() {
                o.remove("tir");
            }
        }
        events.push(e);
        if i == 0 && case["facade"].as_bool().unwrap_or(false) {
            events.push(facade_event(str_of(src), case));
        }
    }
    json!({"events": events})
}
