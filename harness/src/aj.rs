//! Abstract-JSON helpers: the interchange vocabulary shared with the TLA+ specification.
//! Integers are `{"I": "<decimal>"}` (or plain numbers / decimal strings on input),
//! byte strings are arrays of 0..255.

use serde_json::{json, Value};

pub fn bytes_from(v: &Value) -> Vec<u8> {
    match v {
        Value::Array(a) => a.iter().map(|x| x.as_u64().unwrap_or(0) as u8).collect(),
        Value::String(s) => hex::decode(s).unwrap_or_default(),
        _ => vec![],
    }
}

pub fn bytes_to(b: &[u8]) -> Value {
    Value::Array(b.iter().map(|x| json!(*x)).collect())
}

pub fn int_from(v: &Value) -> i128 {
    match v {
        Value::Number(n) => n.as_i128().unwrap_or(0),
        Value::String(s) => s.parse().unwrap_or(0),
        Value::Object(m) => m
            .get("I")
            .and_then(|x| x.as_str())
            .and_then(|s| s.parse().ok())
            .unwrap_or(0),
        _ => 0,
    }
}

pub fn int_to(n: i128) -> Value {
    json!({"I": n.to_string()})
}

pub fn opt_bytes_from(v: &Value) -> Option<Vec<u8>> {
    match v.get("k").and_then(|k| k.as_str()) {
        Some("some") => Some(bytes_from(&v["v"])),
        _ => None,
    }
}

pub fn str_of(v: &Value) -> &str {
    v.as_str().unwrap_or("")
}
