//! C17 / C18: build artifacts.  `lower_digests` lowers and encodes a source repeatedly in this
//! process; `tii` reads an interface file written by the real `tx3c` binary and relates it to
//! the IR it embeds.

use crate::aj::*;
use crate::lang;
use crate::tirj;
use serde_json::{json, Value};
use tx3_tir::encoding::{self, AnyTir, TirVersion};

pub fn run(case: &Value) -> Value {
    let mut events = vec![];
    match str_of(&case["op"]) {
        "lower_digests" => {
            let src = str_of(&case["source"]);
            let reps = case["reps"].as_u64().unwrap_or(20);
            for rep in 0..reps {
                match lang::lower_source(src) {
                    lang::Front::Ok(txs) => {
                        // (the outcome itself is an artifact: a source that is sometimes refused and sometimes built
                        // has no reproducible build)
                        events.push(json!({"ev": "Built", "artifact": "front", "where": "in-process", "rep": rep, "digest": "ok"}));
                        for (name, tx) in txs.iter() {
                            let (bytes, _) = encoding::to_bytes(tx);
                            events.push(json!({"ev": "Built", "artifact": format!("tir:{name}"), "where": "in-process", "rep": rep,
                                               "digest": hex::encode(crate::ledger::blake2b256(&bytes))}));
                        }
                    }
                    f => {
                        let e = lang::front_event(&f);
                        events.push(json!({"ev": "Built", "artifact": "front", "where": "in-process", "rep": rep, "digest": format!("{}", e["outcome"])}));
                    }
                }
            }
            // the facade on one workspace: lowered, given arguments, lowered again -- `lower` derives the templates from
            // the source, so what it leaves is what a fresh workspace leaves
            if let lang::Front::Ok(txs) = lang::lower_source(src) {
                let r = crate::guarded(|| {
                    let mut out = vec![];
                    let mut ws = tx3_lang::Workspace::from_string(src.to_string());
                    if ws.lower().is_err() {
                        return out;
                    }
                    let mut args = std::collections::BTreeMap::new();
                    for tx in txs.values() {
                        for (k, ty) in tx3_tir::reduce::find_params(tx) {
                            use tx3_tir::model::core::Type;
                            use tx3_tir::reduce::ArgValue;
                            let v = match ty {
                                Type::Int => Some(ArgValue::Int(2_000_000)),
                                Type::Bool => Some(ArgValue::Bool(true)),
                                Type::Bytes => Some(ArgValue::Bytes(vec![0xab])),
                                Type::Address => Some(ArgValue::Address([vec![0x60], vec![0x51; 28]].concat())),
                                _ => None,
                            };
                            if let Some(v) = v {
                                args.insert(k, v);
                            }
                        }
                    }
                    let _ = ws.apply_args(&args);
                    if ws.lower().is_err() {
                        return out;
                    }
                    for name in txs.keys() {
                        if let Some(t) = ws.tir(name) {
                            let (bytes, _) = encoding::to_bytes(t);
                            out.push((name.clone(), hex::encode(crate::ledger::blake2b256(&bytes))));
                        }
                    }
                    out
                });
                if let Ok(list) = r {
                    for (name, digest) in list {
                        events.push(json!({"ev": "Built", "artifact": format!("tir:{name}"), "where": "workspace: lower, apply_args, lower", "rep": 0, "digest": digest}));
                    }
                }
            }
        }
        "tii" => {
            // relate a .tii file (bytes given as text) to the source it was built from
            let text = str_of(&case["tii"]);
            let src = str_of(&case["source"]);
            let v: Value = match serde_json::from_str(text) {
                Ok(v) => v,
                Err(e) => return json!({"events": [{"ev": "Tii", "outcome": "invalid-json", "msg": e.to_string()}]}),
            };
            let keys = |x: &Value| -> Vec<String> { x.as_object().map(|m| m.keys().cloned().collect()).unwrap_or_default() };
            let parties = keys(&v["parties"]);
            let environment = keys(&v["environment"]["properties"]);
            let lowered = match lang::lower_source(src) {
                lang::Front::Ok(t) => t,
                _ => Default::default(),
            };
            for (txname, t) in v["transactions"].as_object().cloned().unwrap_or_default() {
                let params = keys(&t["params"]["properties"]);
                let env = &t["tir"];
                let bytes = hex::decode(str_of(&env["content"])).unwrap_or_default();
                let version = TirVersion::try_from(str_of(&env["version"]));
                let decoded = version.ok().and_then(|v| encoding::from_bytes(&bytes, v).ok());
                let (required, matches) = match &decoded {
                    Some(AnyTir::V1Beta0(tx)) => {
                        let req: Vec<String> = tx3_tir::reduce::find_params(tx).keys().cloned().collect();
                        let m = lowered.get(&txname).map(|l| tirj::proj_tx(l) == tirj::proj_tx(tx)).unwrap_or(false);
                        (req, m)
                    }
                    None => (vec![], false),
                };
                // the client of the interface: everything the file declares is supplied, parameters and parties under
                // `args`, environment entries under `env`, and the request goes through the service's own parser; every
                // key the IR requires must come out with a value
                let (client, client_missing) = match &decoded {
                    Some(AnyTir::V1Beta0(tx)) => {
                        use tx3_tir::model::core::Type;
                        let types = tx3_tir::reduce::find_params(tx);
                        let sample = |k: &String| -> Option<Value> {
                            match types.get(k).or_else(|| types.get(&k.to_lowercase())) {
                                None => Some(json!(1)), // declared, not used by this transaction
                                Some(Type::Int) => Some(json!(7)),
                                Some(Type::Bool) => Some(json!(true)),
                                Some(Type::Bytes) => Some(json!("0xab")),
                                Some(Type::Address) => Some(json!(format!("60{}", "51".repeat(28)))),
                                Some(Type::UtxoRef) => Some(json!(format!("{}#1", "07".repeat(32)))),
                                Some(_) => None,
                            }
                        };
                        let mut args = serde_json::Map::new();
                        let mut envm = serde_json::Map::new();
                        let mut expressible = true;
                        for k in params.iter().chain(parties.iter()) {
                            match sample(k) {
                                Some(v) => { args.insert(k.clone(), v); }
                                None => expressible = false,
                            }
                        }
                        for k in environment.iter() {
                            match sample(k) {
                                Some(v) => { envm.insert(k.clone(), v); }
                                None => expressible = false,
                            }
                        }
                        if !expressible {
                            ("na".to_string(), vec![])
                        } else {
                            let doc = json!({"tir": env.clone(), "args": args, "env": envm});
                            let r = crate::guarded(|| -> Result<Vec<String>, String> {
                                let p: tx3_resolver::trp::ResolveParams = serde_json::from_value(doc).map_err(|e| format!("serde: {e}"))?;
                                let (_, got) = tx3_resolver::trp::parse_resolve_request(p).map_err(|e| format!("{e:?}"))?;
                                Ok(types.keys().filter(|k| !got.contains_key(*k)).cloned().collect())
                            });
                            match r {
                                Ok(Ok(missing)) => ("ok".to_string(), missing),
                                Ok(Err(_)) => ("err".to_string(), vec![]),
                                Err(_) => ("panic".to_string(), vec![]),
                            }
                        }
                    }
                    None => ("na".to_string(), vec![]),
                };
                let fold = |xs: &Vec<String>| -> Vec<String> { xs.iter().map(|x| x.to_lowercase()).collect() };
                events.push(json!({"ev": "Tii", "outcome": if decoded.is_some() { "ok" } else { "undecodable" }, "tx": txname,
                                   "params": params, "parties": parties, "environment": environment,
                                   "params_folded": fold(&params), "parties_folded": fold(&parties), "environment_folded": fold(&environment),
                                   "required": required, "tir_matches": matches, "client": client, "client_missing": client_missing}));
            }
        }
        other => events.push(json!({"ev": "Error", "msg": format!("unknown op {other}")})),
    }
    json!({"events": events})
}
