//! C17 / C18: build artifacts.  `lower_digests` lowers and encodes a source repeatedly in this
//! process; `tii` reads an interface file written by the real `tx3c` binary and relates it to
//! the IR it embeds.

use crate::aj::*;
use crate::lang;
use crate::tirj;
use serde_json::{json, Value};
use tx3_tir::encoding::{self, AnyTir, TirVersion};

pub fn run(case: &Value) -> Value {
    let mut events = vec![];
    match str_of(&case["op"]) {
        "lower_digests" => {
            let src = str_of(&case["source"]);
            let reps = case["reps"].as_u64().unwrap_or(20);
            for rep in 0..reps {
                match lang::lower_source(src) {
                    lang::Front::Ok(txs) => {
                        // (the outcome itself is an artifact: a source that is sometimes refused and sometimes built
                        // has no reproducible build)
                        events.push(json!({"ev": "Built", "artifact": "front", "where": "in-process", "rep": rep, "digest": "ok"}));
                        for (name, tx) in txs.iter() {
                            let (bytes, _) = encoding::to_bytes(tx);
                            events.push(json!({"ev": "Built", "artifact": format!("tir:{name}"), "where": "in-process", "rep": rep,
                                               "digest": hex::encode(crate::ledger::blake2b256(&bytes))}));
                        }
                    }
                    f => {
                        let e = lang::front_event(&f);
                        events.push(json!({"ev": "Built", "artifact": "front", "where": "in-process", "rep": rep, "digest": format!("{}", e["outcome"])}));
                    }
                }
            }
        }
        "tii" => {
            // relate a .tii file (bytes given as text) to the source it was built from
            let text = str_of(&case["tii"]);
            let src = str_of(&case["source"]);
            let v: Value = match serde_json::from_str(text) {
                Ok(v) => v,
                Err(e) => return json!({"events": [{"ev": "Tii", "outcome": "invalid-json", "msg": e.to_string()}]}),
            };
            let keys = |x: &Value| -> Vec<String> { x.as_object().map(|m| m.keys().cloned().collect()).unwrap_or_default() };
            let parties = keys(&v["parties"]);
            let environment = keys(&v["environment"]["properties"]);
            let lowered = match lang::lower_source(src) {
                lang::Front::Ok(t) => t,
                _ => Default::default(),
            };
            for (txname, t) in v["transactions"].as_object().cloned().unwrap_or_default() {
                let params = keys(&t["params"]["properties"]);
                let env = &t["tir"];
                let bytes = hex::decode(str_of(&env["content"])).unwrap_or_default();
                let version = TirVersion::try_from(str_of(&env["version"]));
                let decoded = version.ok().and_then(|v| encoding::from_bytes(&bytes, v).ok());
                let (required, matches) = match &decoded {
                    Some(AnyTir::V1Beta0(tx)) => {
                        let req: Vec<String> = tx3_tir::reduce::find_params(tx).keys().cloned().collect();
                        let m = lowered.get(&txname).map(|l| tirj::proj_tx(l) == tirj::proj_tx(tx)).unwrap_or(false);
                        (req, m)
                    }
                    None => (vec![], false),
                };
                let fold = |xs: &Vec<String>| -> Vec<String> { xs.iter().map(|x| x.to_lowercase()).collect() };
                events.push(json!({"ev": "Tii", "outcome": if decoded.is_some() { "ok" } else { "undecodable" }, "tx": txname,
                                   "params": params, "parties": parties, "environment": environment,
                                   "params_folded": fold(&params), "parties_folded": fold(&parties), "environment_folded": fold(&environment),
                                   "required": required, "tir_matches": matches}));
            }
        }
        other => events.push(json!({"ev": "Error", "msg": format!("unknown op {other}")})),
    }
    json!({"events": events})
}
