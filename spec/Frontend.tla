------------------------------- MODULE Frontend -------------------------------
(***************************************************************************)
(* The language front end as a pipeline of stages with outcomes:              *)
(*   Parse(text)   -> ok(ast) | err(diagnostic)                               *)
(*   Analyze(ast)  -> report (a set of diagnostics, possibly empty)           *)
(*   Lower(ast,tx) -> ok(tir) | err                                           *)
(* No stage has any other outcome: there is no Panic, Abort or Timeout action  *)
(* (C12).  The stage contract (C13): an empty report implies every Lower is    *)
(* ok.  Diagnostics point inside the text they carry (C19).                    *)
(***************************************************************************)
EXTENDS Naturals, Sequences

ParseOutcomes == {"ok", "err"}
AnalyzeOutcomes == {"ok"}                 \* analysis always returns a report
LowerOutcomes == {"ok", "err"}

\* a parse diagnostic: span within the text it carries, on character boundaries
ParseDiagOK(d) == d.start <= d.end /\ d.end <= d.src_len /\ d.start_on_boundary /\ d.end_on_boundary
\* an analysis diagnostic with a real location: within the input, on boundaries,
\* and for name-resolution errors the located text is the name reported
AnalyzeDiagOK(d) == d.dummy \/ (d.start <= d.end /\ d.end <= d.input_len /\ d.on_boundary
                                /\ (d.kind = "NotInScope" => d.located = d.name))

\* C13: the analyzer accepts => lowering succeeds
LowerContract(nErrors, lowerOutcome) == nErrors = 0 => lowerOutcome = "ok"
=============================================================================
