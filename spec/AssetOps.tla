------------------------------ MODULE AssetOps ------------------------------
(***************************************************************************)
(* The public API of CanonicalAssets as a register machine: a sequence of   *)
(* registers holds values; constructor operations push a new register,       *)
(* add/sub/neg/roundtrip push a derived one, observers read registers.       *)
(* `Result(regs, op)` is the abstract value the operation must produce and   *)
(* `Observe(x, y)` the answers of the observers; both are stated on abstract *)
(* values only.  Shared by MC_Assets (generator + design check) and          *)
(* Trace_Assets (validation of executions of the real crate).                *)
(***************************************************************************)
EXTENDS Assets, Sequences

IsPush(op) == op.op \in {"empty", "from_naked", "from_named", "from_defined",
                         "from_asset", "from_class"}
IsDerived(op) == op.op \in {"add", "sub", "neg", "roundtrip", "relist", "ir_sub3", "ir_addsub", "ir_subadd", "ir_negsub"}

Result(regs, op) ==
    CASE op.op = "empty"        -> EmptyVal
      [] op.op = "from_naked"   -> Single(Naked, op.n)
      [] op.op = "from_named"   -> Single(ClassOf(NoBytes, SomeBytes(op.name)), op.n)
      [] op.op = "from_defined" -> Single(ClassOf(SomeBytes(op.policy), SomeBytes(op.name)), op.n)
      [] op.op = "from_asset"   -> Single(ClassOf(op.policy, op.name), op.n)
      [] op.op = "from_class"   -> Single(op.class, op.n)
      [] op.op = "add"          -> VAdd(regs[op.i], regs[op.j])
      [] op.op = "sub"          -> VSub(regs[op.i], regs[op.j])
      [] op.op = "neg"          -> VNeg(regs[op.i])
      [] op.op = "roundtrip"    -> regs[op.i]
      \* the asset-expression lists of two registers, one after the other, read back as one list: a list means the sum
      \* of its entries, also when a class is named more than once
      [] op.op = "relist"       -> VAdd(regs[op.i], regs[op.j])
      \* two-step computations folded by the IR reducer (built-in add / sub / negate over asset lists): the intermediate
      \* result never leaves the IR, and the whole means what the value algebra says
      [] op.op = "ir_sub3"      -> VSub(VSub(regs[op.i], regs[op.j]), regs[op.k])
      [] op.op = "ir_addsub"    -> VSub(VAdd(regs[op.i], regs[op.j]), regs[op.k])
      [] op.op = "ir_subadd"    -> VAdd(VSub(regs[op.i], regs[op.j]), regs[op.k])
      [] op.op = "ir_negsub"    -> VSub(VNeg(regs[op.i]), regs[op.j])

\* every amount of the ideal result is representable by the code (i128)
Representable(v) == \A c \in DOMAIN v : FitsI128(v[c])

Observe(x, y) ==
    [eq |-> VEq(x, y),
     is_empty |-> VIsEmpty(x),
     is_empty_or_negative |-> VIsEmptyOrNegative(x),
     is_only_naked |-> VIsOnlyNaked(x),
     contains_total |-> VContainsTotal(x, y),
     contains_some |-> VContainsSome(x, y),
     ordered |-> NonNeg(x) /\ NonNeg(y)]     \* containment answers are specified only then

\* ---- the same machine on the code's representation (zero entries kept) ------
RepResult(reps, op) ==
    CASE op.op = "empty"        -> RepEmpty
      [] op.op = "from_naked"   -> RepSingle(Naked, op.n)
      [] op.op = "from_named"   -> RepSingle(ClassOf(NoBytes, SomeBytes(op.name)), op.n)
      [] op.op = "from_defined" -> RepSingle(ClassOf(SomeBytes(op.policy), SomeBytes(op.name)), op.n)
      [] op.op = "from_asset"   -> RepSingle(ClassOf(op.policy, op.name), op.n)
      [] op.op = "from_class"   -> RepSingle(op.class, op.n)
      [] op.op = "add"          -> RepAdd(reps[op.i], reps[op.j])
      [] op.op = "sub"          -> RepSub(reps[op.i], reps[op.j])
      [] op.op = "neg"          -> RepNeg(reps[op.i])
      [] op.op = "roundtrip"    -> RepAdd(RepEmpty, reps[op.i])   \* rebuilt by folding with +
      [] op.op = "relist"       -> RepAdd(RepAdd(RepEmpty, reps[op.i]), reps[op.j])
      [] op.op = "ir_sub3"      -> RepSub(RepSub(reps[op.i], reps[op.j]), reps[op.k])
      [] op.op = "ir_addsub"    -> RepSub(RepAdd(reps[op.i], reps[op.j]), reps[op.k])
      [] op.op = "ir_subadd"    -> RepAdd(RepSub(reps[op.i], reps[op.j]), reps[op.k])
      [] op.op = "ir_negsub"    -> RepSub(RepNeg(reps[op.i]), reps[op.j])
=============================================================================
