CONSTANTS
  Depth = 1
  Slots = {"out_amount", "since"}
  ReduceModes = {"free"}
INIT Init
NEXT Next
INVARIANTS SchedulesAreValid OracleDefined EmitCase
CHECK_DEADLOCK FALSE
