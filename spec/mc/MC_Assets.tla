------------------------------ MODULE MC_Assets ------------------------------
(***************************************************************************)
(* Exhaustive exploration of the CanonicalAssets API over small constants.   *)
(* Behaviours are operation sequences: NPush constructor calls (through      *)
(* every constructor, amounts in Amounts, so that zero entries and the       *)
(* empty-policy / empty-name degradations all occur) followed by NDerived    *)
(* derived operations over the registers.  TLC checks on the model that the  *)
(* representation the code keeps refines the abstract algebra, that the      *)
(* group laws hold on the abstract values, and that the equality under test  *)
(* (EqImpl) is semantic.  Every complete behaviour is printed as one CASE    *)
(* line and replayed on the real crate.                                      *)
(***************************************************************************)
EXTENDS AssetOps, Json

CONSTANTS AmtMax, NPush, NDerived, EqImpl(_, _), Emit, Focus

Amounts == (0 - AmtMax)..AmtMax

P1 == <<1>>          \* a policy id (bytes)
NA == <<97>>         \* asset name "a"
NB == <<98>>         \* asset name "b"
PA == <<1, 97>>      \* the bytes of P1 followed by NA: a name-only class whose "policy ++ name" bytes are those of
                     \* Defined(P1, NA) - distinct classes that any flattened key would confuse

\* Focus = "splice": only the classes whose flattened bytes coincide (and the naked asset), amounts 1 and -1, so
\* that longer derivations (a value holding several of them, then conversions and differences) stay enumerable
SplicePushes ==
    {[op |-> "from_naked", n |-> FromInt(1)]}
    \cup {[op |-> "from_named", name |-> PA, n |-> FromInt(a)] : a \in {1}}
    \cup {[op |-> "from_defined", policy |-> P1, name |-> NA, n |-> FromInt(a)] : a \in {1, 0 - 1}}
    \cup {[op |-> "from_defined", policy |-> PA, name |-> <<>>, n |-> FromInt(a)] : a \in {1}}

AllPushes ==
    {[op |-> "empty"]}
    \cup {[op |-> "from_naked", n |-> FromInt(a)] : a \in Amounts}
    \cup {[op |-> "from_named", name |-> nm, n |-> FromInt(a)] : nm \in {<<>>, NA, PA}, a \in Amounts}
    \cup {[op |-> "from_defined", policy |-> p, name |-> nm, n |-> FromInt(a)] :
              p \in {<<>>, P1}, nm \in {<<>>, NA, NB}, a \in Amounts}
    \cup {[op |-> "from_asset", policy |-> p, name |-> nm, n |-> FromInt(a)] :
              p \in {NoBytes, SomeBytes(<<>>), SomeBytes(P1)},
              nm \in {NoBytes, SomeBytes(NA)}, a \in Amounts \cap {0, 1}}
    \cup {[op |-> "from_class", class |-> c, n |-> FromInt(a)] :
              c \in {Naked, Defined(P1, NB)}, a \in Amounts \cap {-1, 0}}

Pushes == IF Focus \in {"splice", "ir"} THEN SplicePushes ELSE AllPushes

\* Focus = "ir": after the (splice) pushes, one two-step computation folded by the IR reducer
IrChains(n) ==
    {[op |-> o, i |-> i, j |-> j, k |-> k] : o \in {"ir_sub3", "ir_addsub", "ir_subadd"}, i \in 1..n, j \in 1..n, k \in 1..n}
    \cup {[op |-> "ir_negsub", i |-> i, j |-> j] : i \in 1..n, j \in 1..n}

Derived(n) ==
    IF Focus = "ir" THEN IrChains(n)
    ELSE {[op |-> o, i |-> i, j |-> j] : o \in {"add", "sub", "relist"}, i \in 1..n, j \in 1..n}
         \cup {[op |-> o, i |-> i] : o \in {"neg", "roundtrip"}, i \in 1..n}

VARIABLES hist, reps, vals
vars == <<hist, reps, vals>>

Init == hist = <<>> /\ reps = <<>> /\ vals = <<>>

Do(op) == /\ hist' = Append(hist, op)
          /\ reps' = Append(reps, RepResult(reps, op))
          /\ vals' = Append(vals, Result(vals, op))

Push == Len(hist) < NPush /\ \E op \in Pushes : Do(op)
Derive == /\ Len(hist) >= NPush /\ Len(hist) < NPush + NDerived
          /\ \E op \in Derived(Len(hist)) : Do(op)
Next == Push \/ Derive

Complete == Len(hist) = NPush + NDerived

\* ---- properties checked on the model --------------------------------------
Idx == 1..Len(vals)
RepRefinesAbs == \A i \in Idx : Abs(reps[i]) = vals[i] /\ IsAbs(vals[i])
Commutative == \A i, j \in Idx : VAdd(vals[i], vals[j]) = VAdd(vals[j], vals[i])
Associative == \A i, j, k \in Idx :
                  VAdd(VAdd(vals[i], vals[j]), vals[k]) = VAdd(vals[i], VAdd(vals[j], vals[k]))
SubIsAddNeg == \A i, j \in Idx : VSub(vals[i], vals[j]) = VAdd(vals[i], VNeg(vals[j]))
SubThenAdd == \A i, j \in Idx : VAdd(VSub(vals[i], vals[j]), vals[j]) = vals[i]
NegInvolutive == \A i \in Idx : VNeg(VNeg(vals[i])) = vals[i] /\ VIsEmpty(VAdd(vals[i], VNeg(vals[i])))
EqSemantic == \A i, j \in Idx : EqImpl(reps[i], reps[j]) = (vals[i] = vals[j])
ContainsIsOrder == \A i, j \in Idx : (NonNeg(vals[i]) /\ NonNeg(vals[j])) =>
                      (VContainsTotal(vals[i], vals[j]) <=> NonNeg(VSub(vals[i], vals[j])))

EmitCase == (Emit /\ Complete) => PrintT(<<"CASE", ToJson([ops |-> hist])>>)
=============================================================================
