--------------------------- MODULE MC_GrammarCover ---------------------------
(***************************************************************************)
(* Alternative coverage of the grammar generated from tx3.pest.  MC_Grammar    *)
(* enumerates every sentence up to a token bound, which leaves long            *)
(* alternatives of a rule underived.  Here the derivation may deviate from the  *)
(* shortest expansion (MinAltIx) at most Budget times: every alternative of     *)
(* every rule within Budget deviations of Root appears in some sentence, each   *)
(* completed by shortest expansions, whatever its length.                       *)
(***************************************************************************)
EXTENDS Grammar, TLC, Json, FiniteSets

CONSTANTS Root, Budget

VARIABLES form, used, left
Init == form = <<N(Root)>> /\ used = {} /\ left = Budget

HasNT(f) == \E i \in DOMAIN f : f[i].t = "nt"
FirstNT(f) == CHOOSE i \in DOMAIN f : f[i].t = "nt" /\ \A j \in 1..(i-1) : f[j].t # "nt"

Expand == /\ HasNT(form)
          /\ LET i == FirstNT(form)
                 r == form[i].v
             IN  \E k \in DOMAIN Alts(r) :
                   /\ k # MinAltIx(r) => left > 0
                   /\ left' = IF k = MinAltIx(r) THEN left ELSE left - 1
                   /\ form' = SubSeq(form, 1, i - 1) \o Alts(r)[k] \o SubSeq(form, i + 1, Len(form))
                   /\ used' = used \cup {<<r, k>>}
Next == Expand

Sentence == ~HasNT(form)
EmitCase == Sentence => PrintT(<<"CASE", ToJson([toks |-> form, used |-> used])>>)
=============================================================================
