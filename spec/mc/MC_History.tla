------------------------------ MODULE MC_History ------------------------------
(***************************************************************************)
(* Generator for C20: every history of 0..MaxHist earlier resolutions drawn    *)
(* from the template family, followed by every target.  (The effect of a       *)
(* history on the compiler memory is modelled in MC_ResolveLoop.)              *)
(***************************************************************************)
EXTENDS Sequences, TLC, Json, Naturals

CONSTANTS Templates, Targets, MaxHist

VARIABLES hist, target
Init == /\ hist \in UNION {[1..n -> Templates] : n \in 0..MaxHist}
        /\ target \in Targets
Next == UNCHANGED <<hist, target>>
EmitCase == PrintT(<<"CASE", ToJson([hist |-> hist, target |-> target])>>)
=============================================================================
