CONSTANTS
  Depth = 1
INIT Init
NEXT Next
INVARIANTS RoundTrip Gate GarbageIsAnError EmitCase
CHECK_DEADLOCK FALSE
