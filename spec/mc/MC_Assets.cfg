CONSTANTS
  AmtMax = 1
  NPush = 2
  NDerived = 1
  EqImpl <- VEq
  Emit = TRUE
INIT Init
NEXT Next
INVARIANTS RepRefinesAbs Commutative Associative SubIsAddNeg SubThenAdd NegInvolutive EqSemantic ContainsIsOrder EmitCase
CHECK_DEADLOCK FALSE
