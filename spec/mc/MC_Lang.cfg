CONSTANTS
  Slots = {"out_amount", "second_out", "optional_out", "local_amount", "out_datum", "out_to", "since", "until", "mint_amount", "burn_amount", "mint_burn", "mint_redeemer", "input_redeemer", "signer", "meta_value", "meta_key", "reference", "min_amount"}
  Depth = 1
  Envs = {1, 2}
INIT Init
NEXT Next
INVARIANTS OracleDefined EmitCase
CHECK_DEADLOCK FALSE
