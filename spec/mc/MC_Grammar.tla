------------------------------ MODULE MC_Grammar ------------------------------
(***************************************************************************)
(* Sentence enumeration over the grammar generated from tx3.pest: the state    *)
(* is a sentential form, Next expands its leftmost non-terminal by one of the   *)
(* rule's alternatives, bounded by the number of tokens the form must at least  *)
(* derive.  Every complete sentence (terminals only) is printed as a CASE.      *)
(***************************************************************************)
EXTENDS Grammar, TLC, Json, FiniteSets

CONSTANTS Root, MaxTokens

VARIABLES form
Init == form = <<N(Root)>>

RECURSIVE MinLen(_, _)
MinLen(f, i) == IF i > Len(f) THEN 0
                ELSE (IF f[i].t = "nt" THEN MinTok(f[i].v) ELSE 1) + MinLen(f, i + 1)

HasNT(f) == \E i \in DOMAIN f : f[i].t = "nt"
FirstNT(f) == CHOOSE i \in DOMAIN f : f[i].t = "nt" /\ \A j \in 1..(i-1) : f[j].t # "nt"

Expand == /\ HasNT(form)
          /\ LET i == FirstNT(form)
             IN  \E a \in Alts(form[i].v) :
                   /\ form' = SubSeq(form, 1, i - 1) \o a \o SubSeq(form, i + 1, Len(form))
                   /\ MinLen(form', 1) <= MaxTokens
Next == Expand

Sentence == ~HasNT(form)
EmitCase == Sentence => PrintT(<<"CASE", ToJson([toks |-> form])>>)
=============================================================================
