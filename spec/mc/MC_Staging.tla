------------------------------ MODULE MC_Staging ------------------------------
(***************************************************************************)
(* Generator and design check for C07 (and the template source of C06):       *)
(* for every template of the slot x expression matrix, TLC walks the whole    *)
(* schedule graph of the staging machine -- every order of the four stages in  *)
(* which the compiler ops' operands are available, with or without a reduce    *)
(* between any two -- and prints each complete path as one CASE.               *)
(***************************************************************************)
EXTENDS Staging, TirGen, Json

CONSTANTS Depth,         \* expression depth of the varied slot
          Slots,         \* which slot kinds are varied
          ReduceModes    \* subset of {"all", "free"}: "free" explores every placement

TemplatesOf(s) == {WithSlot(s, e) : e \in SlotUniverse(s, Depth)}

VARIABLES tpl, sched, applied, mode
vars == <<tpl, sched, applied, mode>>

Init == /\ \E s \in Slots : tpl \in TemplatesOf(s)
        /\ sched = <<>> /\ applied = {} /\ mode \in ReduceModes

LastStep == IF Len(sched) = 0 THEN "none" ELSE sched[Len(sched)]

Stage(st) == /\ st \notin applied
             /\ (st = "cops" => TxCopDeps(tpl) \subseteq applied)
             /\ (mode = "all" => (LastStep = "reduce" \/ Len(sched) = 0))
             /\ sched' = Append(sched, st) /\ applied' = applied \cup {st}
             /\ UNCHANGED <<tpl, mode>>
ApplyArgs == Stage("args")
ApplyInputs == Stage("inputs")
ApplyFees == Stage("fees")
ApplyCompilerOps == Stage("cops")
ReduceStep == /\ LastStep \notin {"reduce", "none"}
              /\ sched' = Append(sched, "reduce")
              /\ UNCHANGED <<tpl, applied, mode>>

Next == ApplyArgs \/ ApplyInputs \/ ApplyFees \/ ApplyCompilerOps \/ ReduceStep

Complete == applied = Stages /\ LastStep = "reduce"

\* ---- checked on the model ---------------------------------------------------
SchedulesAreValid == Complete => ValidSchedule(tpl, sched)
\* the generator is meaningful: the oracle is defined for the template
OracleDefined == LET vs == EvalTx(tpl, StdEnv) IN \A i \in DOMAIN vs : ~IsErr(vs[i])
EmitCase == Complete => PrintT(<<"CASE", ToJson([tx |-> tpl, sched |-> sched])>>)
ASSUME PrintT(<<"INFO", ToJson([env |-> StdEnv])>>)
=============================================================================
