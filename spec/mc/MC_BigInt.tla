------------------------------ MODULE MC_BigInt ------------------------------
(* Self-check of BigInt against TLC's native integers on a bounded range and  *)
(* of the hard-wired constants by repeated doubling.                          *)
EXTENDS BigInt, TLC

Samples == (-130..130) \cup {9999, 10000, 10001, -9999, -10000, -10001, 99999999, 100000000,
                             -99999999, -100000000, 123456789, -123456789, 19999, 20000}

RECURSIVE Dbl(_, _)
Dbl(x, n) == IF n = 0 THEN x ELSE Dbl(Add(x, x), n - 1)

C0 == \A a \in Samples : IsBig(FromInt(a)) /\ ToInt(FromInt(a)) = a
C1 == \A a, b \in Samples : /\ ToInt(Add(FromInt(a), FromInt(b))) = a + b
                             /\ ToInt(Sub(FromInt(a), FromInt(b))) = a - b
                             /\ IsBig(Add(FromInt(a), FromInt(b)))
                             /\ IsBig(Sub(FromInt(a), FromInt(b)))
                             /\ (Cmp(FromInt(a), FromInt(b)) < 0) = (a < b)
                             /\ (Cmp(FromInt(a), FromInt(b)) = 0) = (a = b)
C2 == \A a \in Samples : ToInt(Neg(FromInt(a))) = -a
C3 == \A a \in -130..130, k \in {0, 1, 2, 7, 1000, 9999, 10000, 65536, -3, -65536} :
          ToInt(MulInt(FromInt(a), k)) = a * k
C4 == \A a \in Samples, k \in {1, 2, 7, 256, 1000, 9999} :
          ToInt(DivSmallTrunc(FromInt(a), k)) =
             (IF a >= 0 THEN a \div k ELSE -((-a) \div k))
C5 == Two32 = MulInt(FromInt(65536), 65536)
C6 == Two63 = Dbl(One, 63)
C7 == Two64 = Dbl(One, 64)
C8 == Two127 = Dbl(One, 127)
C9 == ToDecimal(Two64) = <<49,56,52,52,54,55,52,52,48,55,51,55,48,57,53,53,49,54,49,54>>
C10 == ToDecimal(FromInt(-10001)) = <<45,49,48,48,48,49>>
C11 == ToDecimal(FromInt(0)) = <<48>> /\ ToDecimal(FromInt(7)) = <<55>>
C12 == FitsI64(I64Max) /\ ~FitsI64(Two63) /\ FitsI64(I64Min) /\ ~FitsI64(Sub(I64Min, One))
C13 == FitsU64(U64Max) /\ ~FitsU64(Two64) /\ ~FitsU64(FromInt(-1))

VARIABLE x
Init == x = 0
Next == UNCHANGED x
Checks == C0 /\ C1 /\ C2 /\ C3 /\ C4 /\ C5 /\ C6 /\ C7 /\ C8 /\ C9 /\ C10 /\ C11 /\ C12 /\ C13
=============================================================================
