------------------------------ MODULE MC_Closure ------------------------------
(***************************************************************************)
(* Generator and design check for C06: every top-level slot of a template x   *)
(* a chain of 0..Depth wrappers (every node type x child position) x every    *)
(* kind of unresolved leaf.  On the model TLC checks that the generic walk    *)
(* finds the leaf wherever it is put (the generator reaches the position) and *)
(* that substituting every parameter/query/fee closes the term.               *)
(***************************************************************************)
EXTENDS TirGen, Json

CONSTANTS Depth

VARIABLES slot, wraps, leaf
vars == <<slot, wraps, leaf>>

WrapSeqs == UNION {[1..d -> WrapKinds \ {"id"}] : d \in 0..Depth}

Init == slot \in TxSlots /\ wraps \in WrapSeqs /\ leaf \in LeafKinds
Next == UNCHANGED vars

Term == WrapAll(wraps, Len(wraps), HoleLeaves[leaf])
Tpl == InSlot(slot, Term)

\* the leaf is visible to the generic walk wherever it was put
LeafNames == ParamNames(HoleLeaves[leaf]) \cup QueryNames(HoleLeaves[leaf])
Reaches == /\ LeafNames \subseteq (TxParamNames(Tpl) \cup UNION {AllQueryNames(c) : c \in Range(TxKids(Tpl))})
           /\ (leaf = "fees" => TxHasTag(Tpl, {"p_fees"}))
\* full evaluation never meets an unresolved node: whatever the outcome, it is not "missing"
RECURSIVE Missing(_)
Missing(v) == v.k = "error" /\ v.why \in {"missing arg", "missing input"}
Closes == LET vs == EvalTx(Tpl, ClosureEnv) IN \A i \in DOMAIN vs : ~Missing(vs[i])

EmitCase == PrintT(<<"CASE", ToJson([tx |-> Tpl, slot |-> slot, wraps |-> wraps, leaf |-> leaf])>>)
ASSUME PrintT(<<"INFO", ToJson([env |-> ClosureEnv])>>)
=============================================================================
