------------------------------ MODULE MC_Reducer ------------------------------
(* Design check of the reducer over the typed universe: for every template and   *)
(* every subset of stages already applied, reduce is idempotent and preserves    *)
(* the meaning of the template under the full environment.                       *)
EXTENDS Reducer, TirGen, TLC

CONSTANTS Depth, Slots        \* IndexIsComponent is declared by Reducer

VARIABLES tpl, applied
Init == /\ \E s \in Slots : \E e \in SlotUniverse(s, Depth) : tpl = WithSlot(s, e)
        /\ applied \in SUBSET {"args", "inputs", "fees", "cops"}
Next == UNCHANGED <<tpl, applied>>

Env == StdEnv
Stage(e) ==
    LET a == IF "args" \in applied THEN SubstArgs(e, Env.args) ELSE e
        b == IF "inputs" \in applied THEN SubstInputs(a, Env.inputs) ELSE a
        c == IF "fees" \in applied THEN SubstFees(b, Env.fee) ELSE b
    IN  IF "cops" \in applied THEN SubstCops(c, Env.cfg) ELSE c
Terms == FlatMap(LAMBDA x : <<Stage(x)>>, TxKids(tpl))

Same(a, b) == Norm(a) = Norm(b)
Idempotent == \A i \in DOMAIN Terms : Same(Reduce(Reduce(Terms[i])), Reduce(Terms[i]))
MeaningPreserved == \A i \in DOMAIN Terms : Eval(Reduce(Terms[i]), Env) = Eval(Terms[i], Env)
\* and application itself does not change the meaning either
ApplicationPreserves == \A i \in DOMAIN Terms : Eval(Terms[i], Env) = Eval(TxKids(tpl)[i], Env)
=============================================================================
