CONSTANTS
  As = {0, 1, 3}
  Bs = {0, 7}
  S0 = 6
  Ins = {40, 100, 270, 300, 70000}
  Sends = {5, 30}
  MaxEvals = 5
  ReturnAtCap = TRUE
  StaleMem = FALSE
  Mems = {99}
  MinIdxs = {0}
INIT Init
NEXT Next
INVARIANTS FixedPoint HistoryIndependent
CHECK_DEADLOCK FALSE
