INIT Init
NEXT Next
INVARIANT Checks
