---------------------------- MODULE MC_ResolveLoop ----------------------------
(***************************************************************************)
(* Design exploration of the resolve loop with a CBOR-width size model         *)
(* (boundaries scaled into small integers: an unsigned integer takes 1, 2, 3   *)
(* or 5 bytes below 24, 256, 65536 and above) and of the compiler memory.      *)
(*                                                                         *)
(* A transfer template: outputs [send, change] with change = in - send - fee.  *)
(* The payload length is S0 + w(fee) + w(change).  Two instances run in        *)
(* lockstep on the same target: A starts with the memory `mem0` left by an      *)
(* earlier resolution (NoMem, or a body with mem0 outputs), B is fresh.        *)
(* The target's first output is min_utxo(MinIdx) when UseMin.                   *)
(*                                                                         *)
(* Deviations of the pinned code, switchable:                                  *)
(*   ReturnAtCap : at the round cap the last round is returned as it is         *)
(*   StaleMem    : the memory of an earlier resolution is read by round 1       *)
(***************************************************************************)
EXTENDS Integers, Sequences, TLC

CONSTANTS As, Bs, S0, Ins, Sends, MaxEvals, ReturnAtCap, StaleMem, Mems, MinIdxs

W(n) == IF n < 24 THEN 1 ELSE IF n < 256 THEN 2 ELSE IF n < 65536 THEN 3 ELSE 5
Cpb == 2
NoMem == 99

VARIABLES a, b, inAmt, send, useMin, minIdx, mem0, ra, rb
vars == <<a, b, inAmt, send, useMin, minIdx, mem0, ra, rb>>
\* a run: [n (evals done), fee (reported by last eval, fee_in of the next), last (none | [bodyFee, len, reported]),
\*         prevSizes (output sizes of the body the instance remembers, <<>> = none), out (running | ok | err | panic), res]

Fresh(mem) == [n |-> 0, fee |-> 0, last |-> <<>>, prev |-> mem, out |-> "running", res |-> <<>>, hasMem |-> FALSE]
RECURSIVE Fours(_)
Fours(k) == IF k = 0 THEN <<>> ELSE <<4>> \o Fours(k - 1)
MemOf(k) == IF k = NoMem THEN <<>> ELSE Fours(k)      \* k outputs of 4 bytes each; <<>> with k = 0 is "a body without outputs"
HasMem(k) == k # NoMem

Init == /\ a \in As /\ b \in Bs /\ inAmt \in Ins /\ send \in Sends
        /\ useMin \in BOOLEAN /\ minIdx \in MinIdxs /\ mem0 \in Mems
        /\ ra = [Fresh(MemOf(mem0)) EXCEPT !.hasMem = StaleMem /\ HasMem(mem0)]
        /\ rb = [Fresh(<<>>) EXCEPT !.hasMem = FALSE]

\* one evaluation round of run r
Eval(r) ==
    LET feeIn == r.fee
        \* min_utxo(minIdx): sized from the remembered body, if any
        minPanic == useMin /\ r.hasMem /\ minIdx + 1 > Len(r.prev)
        minVal == IF ~useMin THEN 0
                  ELSE IF r.hasMem THEN (IF minPanic THEN 0 ELSE (r.prev[minIdx + 1] + 2) * Cpb)
                  ELSE 9 * Cpb
        first == IF useMin THEN minVal ELSE send
        change == inAmt - first - feeIn
        sizes == <<2 + W(first), 2 + W(IF change < 0 THEN 0 ELSE change)>>
        len == S0 + W(feeIn) + sizes[1] + sizes[2]
        reported == a * len + b
        ev == [bodyFee |-> feeIn, len |-> len, reported |-> reported, first |-> first]
    IN  IF minPanic THEN [r EXCEPT !.out = "panic"]
        ELSE IF change < 0 THEN [r EXCEPT !.out = "err"]
        ELSE IF r.last # <<>> /\ r.last = ev
             THEN [r EXCEPT !.out = "ok", !.res = r.last]                      \* repeated: fixed point
        ELSE IF r.n + 1 >= MaxEvals
             THEN IF ReturnAtCap THEN [r EXCEPT !.out = "ok", !.res = ev, !.n = r.n + 1]
                  ELSE [r EXCEPT !.out = "err"]
        ELSE [r EXCEPT !.n = r.n + 1, !.fee = reported, !.last = ev, !.prev = sizes, !.hasMem = TRUE]

EvalPass == /\ (ra.out = "running" \/ rb.out = "running")
            /\ ra' = IF ra.out = "running" THEN Eval(ra) ELSE ra
            /\ rb' = IF rb.out = "running" THEN Eval(rb) ELSE rb
            /\ UNCHANGED <<a, b, inAmt, send, useMin, minIdx, mem0>>
Next == EvalPass

Finished == ra.out # "running" /\ rb.out # "running"
\* C05: whatever is returned is a fixed point of fee -> transaction -> fee
FixedPoint == /\ (ra.out = "ok" => ra.res.bodyFee = ra.res.reported)
              /\ (rb.out = "ok" => rb.res.bodyFee = rb.res.reported)
\* C20: the outcome does not depend on what the instance compiled before
HistoryIndependent == Finished => (ra.out = rb.out /\ ra.res = rb.res)
\* vacuity guard: some run actually converges
SomeConverges == ~(Finished /\ ra.out = "ok" /\ ra.n >= 2)
=============================================================================
