CONSTANTS
  Depth = 1
INIT Init
NEXT Next
INVARIANTS Reaches Closes EmitCase
CHECK_DEADLOCK FALSE
