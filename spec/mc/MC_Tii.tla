-------------------------------- MODULE MC_Tii --------------------------------
(* Generator for C17 (and a program source for C18): identifier spellings for    *)
(* parameters, parties and environment fields; unused and case-colliding names.  *)
EXTENDS TLC, Json, Naturals, FiniteSets

ParamNames == {"quantity", "Quantity", "QUANTITY", "q_1", "validUntil"}
PartyNames == {"sender", "Sender", "SENDER", "My_Party2"}
EnvNames == {"e_int", "EInt", "E_INT"}

VARIABLE c
Init == \E p \in ParamNames, q \in PartyNames, e \in EnvNames, usedParam \in BOOLEAN, usedEnv \in BOOLEAN,
           \* (case_twin_tx: a second transaction whose name differs from the first only in letter case, with parameters of its own;
           \*  two_withdrawals: two chain-specific blocks of one kind, each with names of its own; mixed_blocks: blocks of three kinds,
           \* not in alphabetical order)
           extra \in {"none", "unused_param", "case_twin_param", "second_party", "policy_ctor", "two_withdrawals", "mixed_blocks", "case_twin_tx",
                      "long_script", "long_policy_script", "long_datum", "burn_only_param", "signer_only_param"} :
          c = [param |-> p, party |-> q, env |-> e, usedParam |-> usedParam, usedEnv |-> usedEnv, extra |-> extra,
               \* names the body of the transaction uses (party always; the case twin is used when present)
               nUsed |-> 1 + (IF usedParam THEN 1 ELSE 0) + (IF usedEnv THEN 1 ELSE 0)
                           + (IF extra = "case_twin_param" THEN 1 ELSE 0) + (IF extra = "second_party" THEN 1 ELSE 0)
                           + (IF extra \in {"two_withdrawals", "mixed_blocks"} THEN 2 ELSE 0)
                           + (IF extra \in {"burn_only_param", "signer_only_param"} THEN 1 ELSE 0)]
Next == UNCHANGED c
EmitCase == PrintT(<<"CASE", ToJson(c)>>)
=============================================================================
