------------------------------ MODULE MC_Mutants ------------------------------
(***************************************************************************)
(* Generator for C13 (and the analysis half of C19): semantic mutants of the   *)
(* valid programs of LangGen.  A mutant puts ONE wrong expression (or two, in   *)
(* different slots) into an otherwise valid program: a record constructor with  *)
(* a dropped / duplicated / renamed field or without spread, a call with the    *)
(* wrong number of arguments, a name of another symbol kind used as a value, a   *)
(* malformed literal, an undefined name, a property of a non-record, a non-Int   *)
(* index.  Chains of locals of length 1..12 and directives lacking a field are   *)
(* generated as whole-program mutants.                                          *)
(***************************************************************************)
EXTENDS LangGen, Json

CONSTANTS Double

Raw(t) == [k |-> "raw", text |-> t]
MutantExprs ==
    [missing_field_no_spread |-> CtorE("Rec", "", <<F("f1", PN)>>, Absent),
     no_fields_no_spread |-> CtorE("Rec", "", <<>>, Absent),
     duplicate_field |-> CtorE("Rec", "", <<F("f1", PN), F("f1", PM), F("f2", PB)>>, Absent),
     unknown_field |-> CtorE("Rec", "", <<F("f1", PN), F("f2", PB), F("zz", PN)>>, Absent),
     renamed_field |-> CtorE("Rec", "", <<F("f1", PN), F("g2", PB)>>, Absent),
     unknown_case |-> CtorE("Var", "Z", <<>>, Absent),
     case_missing_field |-> CtorE("Var", "A", <<F("x", PN)>>, Absent),
     unknown_type |-> CtorE("Nope", "", <<F("f1", PN)>>, Absent),
     variant_without_case |-> CtorE("Var", "", <<F("x", PN)>>, Absent),
     spread_of_int |-> CtorE("Rec", "", <<F("f1", PN)>>, PN),
     ada_no_args |-> Raw("Ada()"), ada_two_args |-> Raw("Ada(1, 2)"), tok_no_args |-> Raw("Tok()"),
     min_utxo_no_args |-> Raw("min_utxo()"), min_utxo_two |-> Raw("min_utxo(change, change)"), min_utxo_unknown |-> Raw("min_utxo(nowhere)"),
     tip_slot_arg |-> Raw("tip_slot(1)"), slot_to_time_none |-> Raw("slot_to_time()"), time_to_slot_two |-> Raw("time_to_slot(1, 2)"),
     concat_one |-> Raw("concat(b)"), unknown_fn |-> Raw("foo(1)"),
     asset_as_value |-> Raw("Tok"), type_as_value |-> Raw("Rec"), case_as_value |-> Raw("A"), field_as_value |-> Raw("f1"),
     fn_as_value |-> Raw("Ada"), output_as_value |-> Raw("change"), undefined_name |-> Raw("undefined_name"),
     party_as_value |-> Sender, policy_as_value |-> Pol, input_as_value |-> Source, tx_as_value |-> Raw("t"),
     odd_hex |-> Raw("0xabc"), big_number |-> Raw("99999999999999999999"), long_string |-> Str([i \in 1..70 |-> 120]),
     prop_unknown_field |-> Prop(Source, "nofield"), prop_on_int |-> Prop(PN, "f1"), prop_on_party |-> Prop(Sender, "f1"),
     index_with_bytes |-> [k |-> "index", a |-> [k |-> "list", items |-> <<Lit(1), Lit(2)>>], i |-> PB],
     index_with_string |-> [k |-> "index", a |-> [k |-> "list", items |-> <<Lit(1)>>], i |-> Str(<<120>>)],
     index_on_int |-> [k |-> "index", a |-> PN, i |-> Lit(0)],
     neg_of_bytes |-> U("neg", PB), add_int_bytes |-> Op("add", PN, PB), concat_int |-> Op("concat", PN, PN),
     anyasset_two_args |-> Raw("AnyAsset(0x11, 1)"), nested_unknown |-> AdaE(Raw("nothing_here")),
     map_with_unknown |-> [k |-> "map", pairs |-> <<[a |-> Lit(1), b |-> Raw("missing")]>>]]
MutantNames == DOMAIN MutantExprs

MSlots == {"out_amount", "out_datum", "out_to", "since", "meta_value", "mint_amount", "mint_redeemer", "input_redeemer",
           "signer", "min_amount", "local_amount", "reference"}

VARIABLES slot, mut, slot2, mut2
vars == <<slot, mut, slot2, mut2>>
Init == /\ slot \in MSlots /\ mut \in MutantNames
        /\ IF Double THEN slot2 \in {"out_datum", "since", "meta_value"} \ {slot} /\ mut2 \in {"undefined_name", "missing_field_no_spread", "ada_no_args", "odd_hex", "prop_on_int"}
                     ELSE slot2 = "none" /\ mut2 = "none"
Next == UNCHANGED vars

\* the second mutation is applied on top of the first by re-using WithSlot on the changed base
Second(tx) ==
    IF slot2 = "none" THEN tx
    ELSE LET e == MutantExprs[mut2] IN
         CASE slot2 = "out_datum" -> [tx EXCEPT !.outputs = Append(@, Out("extra", FALSE, Receiver, AdaE(PN), e))]
           [] slot2 = "since" -> [tx EXCEPT !.validity = [k |-> "some", since |-> e, until |-> Absent]]
           [] slot2 = "meta_value" -> [tx EXCEPT !.metadata = [k |-> "some", items |-> <<[key |-> Lit(9), value |-> e]>>]]
Prog == [decls |-> Decls,
         tx |-> Second([WithSlot(slot, MutantExprs[mut]) EXCEPT !.outputs = Append(@, Out("change", FALSE, Sender, AdaE(Lit(1)), Absent))])]
EmitCase == PrintT(<<"CASE", ToJson([prog |-> Prog, name |-> mut, slot |-> slot, name2 |-> mut2, slot2 |-> slot2])>>)
=============================================================================
