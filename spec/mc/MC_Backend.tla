------------------------------ MODULE MC_Backend ------------------------------
(***************************************************************************)
(* The boundary matrix of C14: rows are assignments of a value class to every   *)
(* factor of the environment a template is resolved in.  TLC enumerates the     *)
(* default row, every single deviation and (Pairs = TRUE) every pair of          *)
(* deviations; the templates themselves come from MC_Lang, MC_Closure and the    *)
(* random term generator.                                                       *)
(***************************************************************************)
EXTENDS Backend, TLC, Json

CONSTANTS Pairs, Mode, MaxDeviations      \* Mode: "rows" (the matrix), "directives" (Backend!DirectiveInstances) or "metadata" (Backend!MetadataTextCases)

Factors == [int |-> {"small", "zero", "minus1", "i64max", "i64min", "u64max", "two64", "minus_two64", "i128max", "i128min", "two32"},
            bytes |-> {"len1", "len0", "len27", "len28", "len29", "len31", "len32", "len33", "len64"},
            addr |-> {"key", "script", "base", "stake", "byron", "one_byte", "empty", "raw28", "bad_header"},
            utxo |-> {"normal", "zero_lovelace", "huge_assets", "i128_assets", "negative_asset", "datum_number", "datum_deep", "no_datum", "two_utxos"},
            store |-> {"enough", "empty", "insufficient", "sixty", "other_address"},
            cost_models |-> {"all", "none", "v1"},
            fee_params |-> {"normal", "zero", "huge_cpb", "huge_a"},
            fee |-> {"normal", "zero", "u64max"},
            network |-> {"testnet", "mainnet"},
            history |-> {"fresh", "after_empty_body"}]
Default == [int |-> "small", bytes |-> "len1", addr |-> "key", utxo |-> "normal", store |-> "enough", cost_models |-> "all",
            fee_params |-> "normal", fee |-> "normal", network |-> "testnet", history |-> "fresh"]
FNames == DOMAIN Factors

VARIABLE row
RowInit ==
        \/ row = Default
        \/ \E f \in FNames : \E v \in Factors[f] : row = [Default EXCEPT ![f] = v]
        \/ /\ Pairs
           /\ \E f, g \in FNames : f # g /\ \E v \in Factors[f], w \in Factors[g] : row = [Default EXCEPT ![f] = v, ![g] = w]
Init == IF Mode = "directives" THEN row \in DirectiveInstances(MaxDeviations)
        ELSE IF Mode = "metadata" THEN row \in MetadataTextCases
        ELSE IF Mode = "assets" THEN row \in AssetLiteralCases ELSE RowInit
Next == UNCHANGED row
EmitCase == PrintT(<<"CASE", ToJson(row)>>)
=============================================================================
