------------------------------- MODULE MC_Lang -------------------------------
(***************************************************************************)
(* Generator for C01 / C02 / C08 / C09: programs of the core fragment over a  *)
(* fixed declaration schema, one expression slot varied at a time over typed  *)
(* universes (the slot x expression matrix), each under several environments. *)
(* On the model TLC checks that the denotation is defined (value or stated     *)
(* error, never unspecified) for every generated program: the oracle exists.   *)
(***************************************************************************)
EXTENDS LangGen, Json

CONSTANTS Slots, Envs

VARIABLES slot, expr, envId
vars == <<slot, expr, envId>>
Init == /\ slot \in Slots /\ expr \in SlotUniverse(slot) /\ envId \in Envs
Next == UNCHANGED vars

Prog == [decls |-> Decls, tx |-> WithSlot(slot, expr)]
\* the oracle is defined: a transaction or a stated error, never "unspecified"
\* (a witness block whose version is not a Plutus language, e.g. Mixed = 0, is the one corner these universes reach
\* that the denotation leaves open: the code ignores such a block, the property does not say)
OracleDefined == DenoteTx(Prog, EnvOf(envId)).k \in (IF slot \in {"witness", "two_witnesses", "publish", "b_out_amount", "b_optional_out"} THEN {"tx", "error", "unspec"} ELSE {"tx", "error"})
\* the transaction every slot starts from (for composing programs in which two slots are varied together)
ASSUME PrintT(<<"INFO", ToJson([base |-> BaseTx])>>)
EmitCase == PrintT(<<"CASE", ToJson([prog |-> Prog, env |-> EnvOf(envId), slot |-> slot, envId |-> envId,
                                    balanced |-> slot = "b_balanced",
                                    expect |-> DenoteTx(Prog, EnvOf(envId)).k,
                                    why |-> IF DenoteTx(Prog, EnvOf(envId)).k = "error" THEN DenoteTx(Prog, EnvOf(envId)).why ELSE ""])>>)
=============================================================================
