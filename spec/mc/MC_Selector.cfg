CONSTANTS
  MaxUtxos = 2
  MaxL = 2
  MaxT1 = 1
  MaxT2 = 0
  NBlocks = 1
  WMax = 3
  Explore = TRUE
  UnionFallback = TRUE
  Overlap = FALSE
INIT Init
NEXT Next
INVARIANTS Sound Disjoint Complete TooBroadOnlyWhenUnconstrained
PROPERTY IgnoreMonotone
CHECK_DEADLOCK FALSE
