------------------------------ MODULE MC_Ledger ------------------------------
(***************************************************************************)
(* Generators for C08 (redeemer pointers under every relative order of        *)
(* transaction ids, output indices and policy ids), C09 (the Plutus Data       *)
(* matrix: constructor index x field count x field type x values) and C10      *)
(* (the block-presence lattice).  Mode selects the family.                     *)
(***************************************************************************)
EXTENDS LangGen, Json

CONSTANTS Mode, NInputs, Features, CtorIxs, FieldCounts, MaxCase

\* ------------------------------------------------------------------ C08
\* transaction ids chosen so that byte order, numeric order and source order all differ
Tx1 == [i \in 1..32 |-> 1]
Tx2 == [i \in 1..32 |-> IF i = 32 THEN 2 ELSE 1]
Tx3 == [i \in 1..32 |-> IF i = 1 THEN 0 ELSE 255]
RefPool == {[txid |-> t, index |-> ix] : t \in {Tx1, Tx2, Tx3}, ix \in {2, 10, 256, 65538}}   \* numeric order 2 < 10 < 256 < 65538; as decimal text "10" < "2" < "256"; by low byte 256 < 2 = 65538 < 10; 65538 = 2 in 16 bits
InputNames == <<"zeta", "alpha", "mid", "beta">>          \* source order is not name order
\* (a few of the items carry the field-less alternative 1 or the unit value instead of a case with a field)
RedOf(i) == IF i \in {2, 12} THEN CtorE("Var", "B", <<>>, Absent) ELSE IF i = 21 THEN [k |-> "unit"]
            ELSE CtorE("Var", "C", <<F("z", Lit(100 + i))>>, Absent)
UtxoAt(r, lovelace) == [ref |-> r, address |-> <<96>> \o [i \in 1..28 |-> 81],
                        assets |-> <<[c |-> Naked, n |-> FromInt(lovelace)]>>, datum |-> None]
H3 == [i \in 1..28 |-> IF i = 1 THEN 17 ELSE 0]       \* sorts between nothing and H1: 0x1100.. < 0x1111..
PolicyExprs == <<TokE(Lit(3)), AnyA(Hex(H2), Str(<<98>>), Lit(5)), AnyA(Hex(H3), Str(<<99>>), Lit(1))>>
StakeA == [k |-> "address", v |-> <<224>> \o [i \in 1..28 |-> 7]]
StakeB == [k |-> "address", v |-> <<224>> \o [i \in 1..28 |-> 3]]

\* ------------------------------------------------------------------ C09
FieldTypes == {"Int", "Bytes", "Bool", "Rec", "ListInt", "MapIntBytes"}
FieldTyName(t) == IF t = "ListInt" THEN "List<Int>" ELSE IF t = "MapIntBytes" THEN "Map<Int,Bytes>" ELSE t
FieldValue(t) == CASE t = "Int" -> PN
                   [] t = "Bytes" -> PB
                   [] t = "Bool" -> [k |-> "bool", flag |-> TRUE]
                   [] t = "Rec" -> RecAll
                   [] t = "ListInt" -> [k |-> "list", items |-> <<PN, Lit(1)>>]
                   [] t = "MapIntBytes" -> [k |-> "map", pairs |-> <<[a |-> Lit(1), b |-> PB]>>]
FieldNames == <<"f1", "f2", "f3", "f4", "f5", "f6">>
RECURSIVE FieldsDecl(_, _)
FieldsDecl(n, t) == IF n = 0 THEN <<>> ELSE FieldsDecl(n - 1, t) \o <<[name |-> FieldNames[n], ty |-> FieldTyName(t)]>>
\* the value written for field i: different from its neighbours, so that a value landing in another field shows
FieldValueAt(t, i) == CASE t = "Int" -> Op("add", PN, Lit(i))
                        [] t = "Bytes" -> Op("concat", PB, Hex(<<i>>))
                        [] t = "Bool" -> [k |-> "bool", flag |-> (i % 2 = 1)]
                        [] t = "Rec" -> CtorE("Rec", "", <<F("f1", Op("add", PN, Lit(i))), F("f2", PB)>>, Absent)
                        [] t = "ListInt" -> [k |-> "list", items |-> <<PN, Lit(i)>>]
                        [] t = "MapIntBytes" -> [k |-> "map", pairs |-> <<[a |-> Lit(i), b |-> PB]>>]
RECURSIVE FieldsVal(_, _)
FieldsVal(n, t) == IF n = 0 THEN <<>> ELSE FieldsVal(n - 1, t) \o <<F(FieldNames[n], FieldValueAt(t, n))>>
\* the same constructor with its fields written in the opposite order
RECURSIVE Reversed(_)
Reversed(sq) == IF sq = <<>> THEN <<>> ELSE Reversed(Tail(sq)) \o <<Head(sq)>>
\* a variant type with 140 cases named by their index; case `ix` has `nf` fields of type `t`
RECURSIVE BigCases(_, _, _, _)
BigCases(i, ix, nf, t) == IF i > MaxCase THEN <<>>
                          ELSE <<[name |-> i, fields |-> IF i = ix THEN FieldsDecl(nf, t) ELSE <<>>]>> \o BigCases(i + 1, ix, nf, t)
BigType(ix, nf, t) == [name |-> "Big", record |-> FALSE, cases |-> BigCases(0, ix, nf, t)]

\* ------------------------------------------------------------------ C10
AllFeatures == {"metadata", "input_redeemer", "mint", "mint_redeemer", "burn_same", "burn_other_asset", "burn_all",
                "optional_empty", "optional_full", "reference", "reference_twice", "collateral", "signers", "signers_dup", "signers_apart",
                "datum", "second_input", "validity",
                "donation", "plutus_witness", "plutus_witness_v2", "native_witness", "publish_script", "vote_deleg", "witness_more",
                "input_many", "collateral_two"}

\* the block-presence lattice: every subset of the core features, and every subset of the chain-specific ones
\* inside a few core contexts (the two families multiply otherwise)
ChainFeatures == {"donation", "plutus_witness", "plutus_witness_v2", "native_witness", "publish_script", "vote_deleg", "witness_more",
                  "input_many", "collateral_two"}
CoreContexts == {{"collateral"}, {"mint", "mint_redeemer", "collateral"}, {"input_redeemer", "metadata", "signers"}, {"mint", "mint_redeemer", "burn_all", "datum"}}
C10Lattice == (SUBSET (Features \ ChainFeatures))
              \cup {a \cup b : a \in {x \cap Features : x \in CoreContexts}, b \in SUBSET (Features \cap ChainFeatures)}

VARIABLES c
vars == <<c>>

\* ---- C08 cases: inputs with refs in every relative order, mints over 0..3 policies, withdrawals
C08Cases ==
    {[kind |-> "c08", refs |-> rs, many |-> mn, reds |-> rd, mints |-> ms, burnFirst |-> bf, wds |-> w, multi |-> mu] :
        rs \in {s \in [1..NInputs -> RefPool] : \A i, j \in 1..NInputs : i # j => s[i] # s[j]},
        mn \in BOOLEAN, rd \in {"all", "some"}, ms \in {0, 1, 2, 3}, bf \in BOOLEAN, w \in {0, 1, 2},
        \* one more mint block spanning two policies, with a redeemer; optionally a burn that cancels its lower / higher policy
        mu \in {"none", "two", "cancel_low", "cancel_high"}}
    \* withdrawals of which only some are guarded (StakeTwo's account sorts before StakeOne's): the pointer of a reward
    \* redeemer counts every reward account of the body, guarded or not
    \cup {[kind |-> "c08", refs |-> rs, many |-> FALSE, reds |-> "some", mints |-> ms, burnFirst |-> FALSE, wds |-> 2, multi |-> "none",
            wdReds |-> wr] :
           rs \in {s \in [1..NInputs -> RefPool] : s[1] = [txid |-> Tx1, index |-> 2] /\ (NInputs >= 2 => s[2] = [txid |-> Tx2, index |-> 10])
                                                   /\ (NInputs >= 3 => s[3] = [txid |-> Tx3, index |-> 256])},
           ms \in {0, 1}, wr \in {"first", "second", "none"}}
WdGuard(x) == IF "wdReds" \in DOMAIN x THEN x.wdReds ELSE "all"
C08Prog(x) ==
    LET k == NInputs
        \* a `many` first block gets a second UTxO
        extra == CHOOSE r \in RefPool : \A i \in 1..k : x.refs[i] # r
        inputs == [i \in 1..k |-> Inp(InputNames[i], x.many /\ i = 1, Sender, AdaE(Lit(1)), Absent,
                                      IF x.reds = "all" \/ i % 2 = 1 THEN RedOf(i) ELSE Absent, "Rec")]
        mintBlocks == [j \in 1..x.mints |-> [amount |-> PolicyExprs[j], redeemer |-> RedOf(10 + j)]]
        \* H3 < H1 in byte order: PolicyExprs[3] is the lower policy of the two-policy block, PolicyExprs[1] the higher
        twoBlock == IF x.multi = "none" THEN <<>>
                    ELSE <<[amount |-> Op("add", TokE(Lit(4)), AnyA(Hex(H3), Str(<<100>>), Lit(2))), redeemer |-> RedOf(30)]>>
        cancel == IF x.multi = "cancel_low" THEN <<[amount |-> AnyA(Hex(H3), Str(<<100>>), Lit(2)), redeemer |-> Absent]>>
                  ELSE IF x.multi = "cancel_high" /\ ~(x.burnFirst /\ x.mints >= 1) /\ x.mints = 0
                       THEN <<[amount |-> TokE(Lit(4)), redeemer |-> Absent]>> ELSE <<>>
        tx == [BaseTx EXCEPT !.inputs = inputs,
                             !.outputs = <<Out("", FALSE, Receiver, AdaE(Lit(2000000)), Absent)>>,
                             !.mints = (IF x.burnFirst /\ x.mints >= 1 THEN SubSeq(mintBlocks, 2, x.mints) ELSE mintBlocks) \o twoBlock,
                             !.burns = (IF x.burnFirst /\ x.mints >= 1 THEN <<mintBlocks[1]>> ELSE <<>>) \o cancel,
                             !.withdrawals = SubSeq(<<[from |-> Id("party", "StakeOne", "stakeone"), amount |-> Lit(5),
                                                       redeemer |-> IF WdGuard(x) \in {"all", "first"} THEN RedOf(20) ELSE Absent],
                                                      [from |-> Id("party", "StakeTwo", "staketwo"), amount |-> Lit(6),
                                                       redeemer |-> IF WdGuard(x) \in {"all", "second"} THEN RedOf(21) ELSE Absent]>>, 1, x.wds)]
        base == EnvOf(1)
    IN  [prog |-> [decls |-> [Decls EXCEPT !.parties = @ \o <<[name |-> "StakeOne", key |-> "stakeone"], [name |-> "StakeTwo", key |-> "staketwo"]>>], tx |-> tx],
         env |-> [base EXCEPT !.args = [n |-> base.args.n, mixed |-> base.args.mixed, b |-> base.args.b, e_int |-> base.args.e_int,
                                        sender |-> base.args.sender, receiver |-> base.args.receiver, myparty |-> base.args.myparty,
                                        stakeone |-> StakeA, staketwo |-> StakeB],
                               !.utxos = [nm \in {InputNames[i] : i \in 1..k} |->
                                            LET i == CHOOSE i \in 1..k : InputNames[i] = nm
                                            IN  IF x.many /\ i = 1 THEN <<UtxoAt(x.refs[i], 5000000), UtxoAt(extra, 6000000)>>
                                                ELSE <<UtxoAt(x.refs[i], 5000000)>>]]]

\* ---- C09 cases
C09Cases == {[kind |-> "c09", ix |-> ix, nf |-> nf, ty |-> t, where |-> w, rev |-> r] :
                ix \in CtorIxs, nf \in FieldCounts, t \in FieldTypes, w \in {"datum", "redeemer"}, r \in BOOLEAN}
C09Prog(x, envId) ==
    LET e == CtorE("Big", x.ix, IF x.rev THEN Reversed(FieldsVal(x.nf, x.ty)) ELSE FieldsVal(x.nf, x.ty), Absent)
        tx == IF x.where = "datum"
              THEN [BaseB EXCEPT !.outputs = <<Out("named", FALSE, Receiver, AdaE(Lit(2000000)), e)>>]
              ELSE [BaseB EXCEPT !.mints = <<[amount |-> TokE(Lit(3)), redeemer |-> e]>>]
    IN  [prog |-> [decls |-> [Decls EXCEPT !.types = Append(@, BigType(x.ix, x.nf, x.ty))], tx |-> tx], env |-> EnvOf(envId)]

\* ---- C10 cases
C10Prog(fs) ==
    LET has(f) == f \in fs
        T1 == TokE(Lit(3))
        inputs == <<[BaseInput EXCEPT !.min_amount = AdaE(Lit(1)), !.redeemer = IF has("input_redeemer") THEN RedOf(1) ELSE Absent,
                                      !.many = has("input_many")]>>
                  \o (IF has("second_input") THEN <<Inp("other", FALSE, Sender, AdaE(Lit(1)), Absent, Absent, "Rec")>> ELSE <<>>)
        outs == (IF has("optional_empty") THEN <<Out("maybe", TRUE, Sender, Op("sub", AdaE(PN), AdaE(PN)), Absent)>> ELSE <<>>)
                \o (IF has("optional_full") THEN <<Out("maybe2", TRUE, Sender, AdaE(Lit(1500000)), Absent)>> ELSE <<>>)
                \o <<Out("", FALSE, Receiver, AdaE(Lit(2000000)), IF has("datum") THEN RecAll ELSE Absent)>>
        tx == [BaseTx EXCEPT
                 !.inputs = inputs, !.outputs = outs,
                 !.mints = IF has("mint") THEN <<[amount |-> Op("add", T1, AnyA(Hex(H2), Str(<<98>>), Lit(5))),
                                                  redeemer |-> IF has("mint_redeemer") THEN RedOf(2) ELSE Absent]>> ELSE <<>>,
                 !.burns = (IF has("burn_same") /\ has("mint") THEN <<[amount |-> T1, redeemer |-> Absent]>> ELSE <<>>)
                           \o (IF has("burn_other_asset") /\ has("mint") THEN <<[amount |-> AnyA(Hex(H2), Str(<<98>>), Lit(5)), redeemer |-> Absent]>> ELSE <<>>)
                           \o (IF has("burn_all") /\ has("mint") /\ ~has("burn_same") /\ ~has("burn_other_asset")
                               THEN <<[amount |-> Op("add", T1, AnyA(Hex(H2), Str(<<98>>), Lit(5))), redeemer |-> Absent]>> ELSE <<>>),
                 !.metadata = IF has("metadata") THEN [k |-> "some", items |-> <<[key |-> Lit(1), value |-> PB]>>] ELSE Absent,
                 !.references = (IF has("reference") THEN <<[name |-> "rf", ref |-> [k |-> "utxo_ref", txid |-> Tx1, index |-> 2]]>> ELSE <<>>)
                                \o (IF has("reference_twice") THEN <<[name |-> "rf2", ref |-> [k |-> "utxo_ref", txid |-> Tx1, index |-> 2]]>> ELSE <<>>),
                 !.collateral = IF has("collateral") THEN [k |-> "some", from |-> Sender, min_amount |-> AdaE(Lit(5)), ref |-> Absent] ELSE Absent,
                 !.signers = IF has("signers") THEN [k |-> "some", items |-> <<Sender>> \o (IF has("signers_dup") THEN <<Sender, Hex(KeyHash)>> ELSE <<>>)
                                                                         \o (IF has("signers_apart") THEN <<Receiver, Sender, MyParty, Receiver>> ELSE <<>>)] ELSE Absent,
                 !.validity = IF has("validity") THEN [k |-> "some", since |-> TipSlot, until |-> Absent] ELSE Absent,
                 !.cardano = (IF has("donation") THEN <<Donation(Lit(5))>> ELSE <<>>)
                             \o (IF has("plutus_witness") THEN <<PlutusW(Lit(3), Hex(PlutusScriptBytes))>> ELSE <<>>)
                             \o (IF has("plutus_witness_v2") THEN <<PlutusW(Lit(2), Hex(PlutusScriptBytes))>> ELSE <<>>)
                             \o (IF has("native_witness") THEN <<NativeW(Hex(NativeScriptBytes))>> ELSE <<>>)
                             \* several scripts of one language, one of them twice, and a second native script: the sets keep a stable order
                             \o (IF has("witness_more") THEN <<PlutusW(Lit(3), Hex(<<81, 1, 1, 0, 1>>)), PlutusW(Lit(3), Hex(<<81, 1, 1, 0, 2>>)),
                                                              PlutusW(Lit(3), Hex(<<81, 1, 1, 0, 3>>)), PlutusW(Lit(3), Hex(<<81, 1, 1, 0, 4>>)),
                                                              PlutusW(Lit(2), Hex(<<81, 1, 1, 0, 5>>)), PlutusW(Lit(2), Hex(<<81, 1, 1, 0, 6>>)),
                                                              NativeW(Hex(<<130, 1, 128>>))>> ELSE <<>>)
                             \o (IF has("publish_script") THEN <<Publish(Receiver, AdaE(Lit(3000000)), RecAll, Lit(3), Hex(PlutusScriptBytes))>> ELSE <<>>)
                             \o (IF has("vote_deleg") THEN <<VoteDeleg(Hex(DRepHash), Hex(StakeKeyAddr)), VoteDeleg(Hex(DRepHash), Hex(StakeKeyAddr))>> ELSE <<>>)]
        base == EnvOf(1)
    IN  [prog |-> [decls |-> Decls, tx |-> tx],
         \* several UTxOs bound to one block (a multi-UTxO input, a collateral of two): sets whose order must not show in the bytes
         env |-> [base EXCEPT !.utxos = [source |-> IF has("input_many")
                                                    THEN base.utxos.source \o <<Utxo(9, 1, 81, 6000000, 0, RecDatum), Utxo(4, 2, 81, 7000000, 0, RecDatum),
                                                                                 Utxo(250, 0, 81, 8000000, 0, RecDatum)>>
                                                    ELSE base.utxos.source,
                                         collateral |-> IF has("collateral_two")
                                                        THEN base.utxos.collateral \o <<Utxo(5, 0, 81, 9000000, 0, None), Utxo(3, 3, 81, 9000000, 0, None)>>
                                                        ELSE base.utxos.collateral,
                                         other |-> <<Utxo(3, 2, 81, 7000000, 0, RecDatum)>>]]]

Init == c \in (IF Mode = "c08" THEN C08Cases
               ELSE IF Mode = "c09" THEN C09Cases
               ELSE {[kind |-> "c10", fs |-> fs] : fs \in C10Lattice})
Next == UNCHANGED c

Built == IF c.kind = "c08" THEN C08Prog(c) ELSE IF c.kind = "c09" THEN C09Prog(c, 1) ELSE C10Prog(c.fs)
\* (c08: two guarded blocks may claim one policy, which the denotation leaves open)
OracleDefined == DenoteTx(Built.prog, Built.env).k \in (IF c.kind = "c08" THEN {"tx", "error", "unspec"} ELSE {"tx", "error"})
EmitCase == PrintT(<<"CASE", ToJson([prog |-> Built.prog, env |-> Built.env, slot |-> c.kind, envId |-> 1,
                                    expect |-> DenoteTx(Built.prog, Built.env).k, meta |-> c])>>)
=============================================================================
