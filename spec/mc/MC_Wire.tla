------------------------------- MODULE MC_Wire -------------------------------
(***************************************************************************)
(* Term universe for C11: every leaf variant (constant and unresolved) under  *)
(* 0..Depth wrappers (every node type x child position) in every slot of a    *)
(* transaction; the small wire machine Encode -> (Corrupt)? -> Decode(version) *)
(* is explored over it and the round-trip identity checked on the model.      *)
(***************************************************************************)
EXTENDS Wire, TirGen, Json

CONSTANTS Depth

AllLeaves == [k \in LeafKinds \cup WireLeafKinds |->
                 IF k \in LeafKinds THEN HoleLeaves[k] ELSE WireLeaves[k]]
Versions == {"v1beta0", "v1alpha8", "v1alpha9", "v2", ""}

VARIABLES slot, wraps, leaf, phase, wire, version, result
vars == <<slot, wraps, leaf, phase, wire, version, result>>

WrapSeqs == UNION {[1..d -> WrapKinds \ {"id"}] : d \in 0..Depth}
Term == WrapAll(wraps, Len(wraps), AllLeaves[leaf])
Tpl == InSlot(slot, Term)

Init == /\ slot \in TxSlots /\ wraps \in WrapSeqs /\ leaf \in DOMAIN AllLeaves
        /\ phase = "term" /\ wire = Garbage /\ version = "" /\ result = [outcome |-> "none"]

EncodeStep == /\ phase = "term" /\ phase' = "encoded" /\ wire' = Encode(Tpl)
              /\ UNCHANGED <<slot, wraps, leaf, version, result>>
Corrupt == /\ phase = "encoded" /\ ~IsGarbage(wire) /\ wire' = Garbage
           /\ slot = "fees" /\ wraps = <<>>         \* the model needs it once per leaf, not per position
           /\ UNCHANGED <<slot, wraps, leaf, phase, version, result>>
DecodeStep == /\ phase = "encoded" /\ phase' = "decoded"
              /\ \E v \in (IF slot = "fees" /\ wraps = <<>> THEN Versions ELSE {CurrentVersion}) :
                    version' = v /\ result' = Decode(wire, v)
              /\ UNCHANGED <<slot, wraps, leaf, wire>>
Next == EncodeStep \/ Corrupt \/ DecodeStep

\* ---- checked on the model ---------------------------------------------------
RoundTrip == (phase = "decoded" /\ ~IsGarbage(wire) /\ version = CurrentVersion) =>
                /\ result.outcome = "ok" /\ result.term = Tpl
                /\ TxParamNames(result.term) = TxParamNames(Tpl)
                /\ TxQueryNames(result.term) = TxQueryNames(Tpl)
Gate == (phase = "decoded" /\ version # CurrentVersion) => result.outcome \in {"deprecated", "unknown"}
GarbageIsAnError == (phase = "decoded" /\ IsGarbage(wire) /\ version = CurrentVersion) => result.outcome = "err"
EmitCase == (phase = "term") => PrintT(<<"CASE", ToJson([tx |-> Tpl, slot |-> slot, wraps |-> wraps, leaf |-> leaf])>>)
ASSUME PrintT(<<"INFO", ToJson([env |-> ClosureEnv])>>)
=============================================================================
