------------------------------ MODULE MC_Interop ------------------------------
(***************************************************************************)
(* Generator for C16: (a) type x value class x form (admissible and ill-formed), *)
(* (b) request documents: every split of the declared parameters between the     *)
(* `args` and `env` maps, with undeclared extras and envelope corruptions.       *)
(***************************************************************************)
EXTENDS Interop, TLC, Json

CONSTANTS Mode

U32Max == Sub(Two32, One)
Two53 == MulInt(MulInt(FromInt(67108864), 67108864), 2)      \* beyond it a JSON number read as a double loses its last bit
IntValues == <<Zero, One, Neg(One), FromInt(255), FromInt(65536), I64Max, I64Min, Sub(I64Min, One), U64Max, Two64,
               I128Max, I128Min, Sub(I128Max, One), Neg(Two64),
               Add(FromInt(2147483647), One), Two32, Add(Two53, One), Neg(Add(Two53, One)), Sub(U64Max, One), Add(I64Min, One)>>
ByteLens == {0, 1, 2, 28, 29, 32, 40, 4096, 4097}
AllForms == {"decimal_string", "hex16", "number", "literal", "number01", "string", "hex", "hex0x", "envelope_hex", "envelope_hex0x",
             "envelope_base64", "envelope_alias_keys", "bech32", "txid_hash_index"}

Declared == {"quantity", "owner", "memo", "flag"}        \* Int, Address, Bytes, Bool
Envelopes == {"ok", "bad_content", "bad_base64", "bad_encoding", "bad_version", "retired_version", "garbage_cbor", "base64_ok"}

VARIABLE c
Init == IF Mode = "forms"
        THEN \/ \E i \in DOMAIN IntValues, f \in {"decimal_string", "hex16", "number"} :
                   c = [kind |-> "form", type |-> "Int", form |-> f, int |-> IntValues[i], len |-> 0, flag |-> FALSE,
                        admissible |-> Admissible("Int", f, IntValues[i])]
             \/ \E b \in BOOLEAN, f \in {"literal", "number01", "string"} :
                   c = [kind |-> "form", type |-> "Bool", form |-> f, int |-> Zero, len |-> 0, flag |-> b, admissible |-> TRUE]
             \/ \E n \in ByteLens, f \in BytesForms :
                   c = [kind |-> "form", type |-> "Bytes", form |-> f, int |-> Zero, len |-> n, flag |-> FALSE, admissible |-> TRUE]
             \* the first byte of an address (its kind and network) is what its hex form starts with: payment key / script,
             \* base, reward key / script on both networks, and 0xab for a short all-letters-then-digit string
             \/ \E n \in {2, 29, 57}, h \in {96, 0, 112, 113, 224, 225, 240, 241, 171}, f \in AddressForms :
                   c = [kind |-> "form", type |-> "Address", form |-> f, int |-> FromInt(h), len |-> n, flag |-> FALSE, admissible |-> TRUE]
             \* (an output index has 32 bits)
             \/ \E n \in {0, 1, 32}, ix \in {Zero, One, FromInt(65535), U32Max, Two32, Add(Two32, One), Two64} :
                   c = [kind |-> "form", type |-> "UtxoRef", form |-> "txid_hash_index", int |-> ix, len |-> n, flag |-> FALSE,
                        admissible |-> Admissible("UtxoRef", "txid_hash_index", ix)]
             \/ \E t \in Types, s \in BadShapes :
                   c = [kind |-> "shape", type |-> t, form |-> s, int |-> Zero, len |-> 0, flag |-> FALSE,
                        admissible |-> ~ShapeIsBadFor(t, s)]
        ELSE \E inArgs \in SUBSET Declared, inEnv \in SUBSET Declared, extras \in BOOLEAN, env \in Envelopes :
                 c = [kind |-> "request", args |-> inArgs, env |-> inEnv, extras |-> extras, envelope |-> env,
                      expected |-> ExpectedKeys(Declared, inArgs, inEnv)]
Next == UNCHANGED c
EmitCase == PrintT(<<"CASE", ToJson(c)>>)
=============================================================================
