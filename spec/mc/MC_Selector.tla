----------------------------- MODULE MC_Selector -----------------------------
(***************************************************************************)
(* The selector machine over small stores: blocks are visited in name order;  *)
(* for each block  Narrow -> Take (window) -> Fetch -> Pick -> Commit.        *)
(* Window and pick are nondeterministic within the contract, so TLC explores  *)
(* every admissible selector.  With Explore = FALSE the module is only the    *)
(* generator of (store, queries) cases for replay on the real resolver.       *)
(* UnionFallback = TRUE enables the deviation action of the pinned code.      *)
(***************************************************************************)
EXTENDS Sequences, SequencesExt, TLC, Json, Integers

CONSTANTS MaxUtxos, MaxL, MaxT1, MaxT2, NBlocks, WMax, Explore, UnionFallback, Overlap

Refs == {"r1", "r2", "r3", "r4"}
Addrs == {"A", "B"}
Classes == {"L", "T1", "T2"}

INSTANCE Selector WITH NGe <- LAMBDA a, b : a >= b, NAdd <- LAMBDA a, b : a + b, NZero <- 0,
                       NIsPos <- LAMBDA a : a > 0, IsToken <- LAMBDA c : c \in {"T1", "T2"},
                       Lovelace <- "L", NoAddr <- "none"

Mk(l, t1, t2) == [c \in ({"L"} \cup (IF t1 > 0 THEN {"T1"} ELSE {}) \cup (IF t2 > 0 THEN {"T2"} ELSE {})) |->
                    IF c = "L" THEN l ELSE IF c = "T1" THEN t1 ELSE t2]
UtxoKinds == {[addr |-> a, assets |-> Mk(l, t1, t2)] : a \in Addrs, l \in 1..MaxL, t1 \in 0..MaxT1, t2 \in 0..MaxT2}
RefSeq == <<"r1", "r2", "r3", "r4">>
Stores == UNION {[{RefSeq[i] : i \in 1..n} -> UtxoKinds] : n \in 1..MaxUtxos}

Mins == {[c \in {} |-> 0]} \cup {Mk(l, t1, t2) : l \in {0, 1, MaxL}, t1 \in {0, 1, MaxT1}, t2 \in {0, MaxT2}}
Queries ==
    IF Overlap
    THEN {[address |-> a, refs |-> rs, min |-> m, many |-> mn, collateral |-> FALSE] :
              a \in {"A"}, rs \in {{}, {"r1"}, {"r1", "r2"}}, m \in {Mk(1, 0, 0), Mk(MaxL, 0, 0), Mk(0, 1, 0)},
              mn \in BOOLEAN}
         \cup {[address |-> "A", refs |-> {}, min |-> Mk(1, 0, 0), many |-> FALSE, collateral |-> TRUE]}
    ELSE {[address |-> a, refs |-> rs, min |-> m, many |-> mn, collateral |-> co] :
              a \in {"none", "A", "B"}, rs \in {{}, {"r1"}, {"r2"}, {"r9"}}, m \in Mins,
              mn \in BOOLEAN, co \in BOOLEAN}

VARIABLES store, queries, k, phase, window, bound, taken, takenColl, outcome
vars == <<store, queries, k, phase, window, bound, taken, takenColl, outcome>>

\* canonical stores only: UTxO kinds in non-decreasing order kills most permutations
KindIdx(u) == (IF u.addr = "A" THEN 0 ELSE 1000) + 100 * AGet(u.assets, "L") + 10 * AGet(u.assets, "T1") + AGet(u.assets, "T2")
Canonical(s) == \A i, j \in 1..4 : (i < j /\ RefSeq[i] \in DOMAIN s /\ RefSeq[j] \in DOMAIN s)
                                      => KindIdx(s[RefSeq[i]]) <= KindIdx(s[RefSeq[j]])

Init == /\ store \in {s \in Stores : Canonical(s)}
        /\ queries \in [1..NBlocks -> Queries]
        /\ k = 1 /\ phase = "narrow" /\ window = {} /\ bound = <<>>
        /\ taken = {} /\ takenColl = {} /\ outcome = "running"

Q == queries[k]
Ignored == IF Q.collateral THEN takenColl ELSE taken

Narrow == /\ Explore /\ outcome = "running" /\ phase = "narrow"
          /\ IF TooBroad(Q) THEN outcome' = "too-broad" /\ UNCHANGED phase
                            ELSE phase' = "take" /\ UNCHANGED outcome
          /\ UNCHANGED <<store, queries, k, window, bound, taken, takenColl>>

Windows(space) == IF Cardinality(space) <= WMax THEN {space}
                  ELSE {w \in SUBSET space : Cardinality(w) = WMax}
Take == /\ Explore /\ outcome = "running" /\ phase = "take"
        /\ window' \in {w \ Ignored : w \in Windows(Cand(store, Q))}
        /\ phase' = "pick"
        /\ UNCHANGED <<store, queries, k, bound, taken, takenColl, outcome>>
\* what the pinned code does: fill the window from the union of the per-constraint subsets
TakeWithUnionFallback ==
        /\ Explore /\ UnionFallback /\ outcome = "running" /\ phase = "take"
        /\ Cardinality(Cand(store, Q)) < WMax
        /\ window' \in {w \ Ignored : w \in Windows(UnionSpace(store, Q) \cup Cand(store, Q))}
        /\ phase' = "pick"
        /\ UNCHANGED <<store, queries, k, bound, taken, takenColl, outcome>>

\* the selector under exploration: any non-empty choice that covers min_amount by asset
\* containment (which is all the code looks at once the window is fetched) ...
CodePicks(w) == {S \in SUBSET w : /\ S # {} /\ (~Q.many => Cardinality(S) = 1)
                                   /\ (Q.collateral => \A r \in S : PureLovelace(store[r].assets))
                                   /\ Covers(ASum(store, S), Q.min)}
Pick == /\ Explore /\ outcome = "running" /\ phase = "pick"
        /\ IF CodePicks(window) = {}
           THEN outcome' = "not-resolved" /\ UNCHANGED <<bound, taken, takenColl, k, phase>>
           ELSE \E S \in CodePicks(window) :
                  /\ bound' = Append(bound, S)
                  /\ IF Q.collateral THEN takenColl' = takenColl \cup S /\ UNCHANGED taken
                                     ELSE taken' = taken \cup S /\ UNCHANGED takenColl
                  /\ IF k = NBlocks THEN outcome' = "done" /\ UNCHANGED <<k, phase>>
                                    ELSE k' = k + 1 /\ phase' = "narrow" /\ UNCHANGED outcome
        /\ UNCHANGED <<store, queries, window>>

Next == Narrow \/ Take \/ TakeWithUnionFallback \/ Pick

\* ---- properties -----------------------------------------------------------------
Sound == \A i \in DOMAIN bound : SoundSel(store, queries[i], bound[i])
Disjoint == \A i, j \in DOMAIN bound :
               (i # j /\ ~queries[i].collateral /\ ~queries[j].collateral) => bound[i] \cap bound[j] = {}
Complete == outcome = "not-resolved" =>
               ~Resolvable(store, Q, IF Cardinality(Cand(store, Q)) <= WMax THEN Cand(store, Q) \ Ignored ELSE window)
TooBroadOnlyWhenUnconstrained == outcome = "too-broad" => TooBroad(Q)
IgnoreMonotone == [][taken \subseteq taken' /\ takenColl \subseteq takenColl']_vars

EmitCase == (k = 1 /\ phase = "narrow" /\ outcome = "running") =>
               PrintT(<<"CASE", ToJson([store |-> [r \in DOMAIN store |-> [addr |-> store[r].addr, assets |-> store[r].assets]],
                                        queries |-> [i \in 1..NBlocks |->
                                            [address |-> queries[i].address, refs |-> SetToSeq(queries[i].refs),
                                             min |-> queries[i].min, many |-> queries[i].many,
                                             collateral |-> queries[i].collateral]]])>>)
=============================================================================
