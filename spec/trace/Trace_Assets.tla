----------------------------- MODULE Trace_Assets -----------------------------
(***************************************************************************)
(* Trace validation for C15: executions of the real CanonicalAssets API,     *)
(* recorded by tx3-driver, are checked event by event against AssetOps.      *)
(* The monitor never blocks: every event is consumed, a mismatch is recorded  *)
(* with a reason, and the registers are re-synchronised from the observation  *)
(* so that the rest of the case is still checked.                             *)
(***************************************************************************)
EXTENDS AssetOps, Json, IOUtils

Rec == ndJsonDeserialize(IOEnv.TRACE)

VARIABLES l, regs, reps, bad
vars == <<l, regs, reps, bad>>

Idxs(s) == 1..Len(s)
ValOf(entries) ==
    [c \in {entries[i].c : i \in Idxs(entries)} |->
        entries[CHOOSE i \in Idxs(entries) : entries[i].c = c].n]
RepOf(res) == LET v == ValOf(res.entries)
              IN  [c \in {res.keys[i] : i \in Idxs(res.keys)} |-> Get(v, c)]

Flag(why, detail) == Append(bad, [line |-> l, why |-> why, detail |-> detail])

Init == l = 1 /\ regs = <<>> /\ reps = <<>> /\ bad = <<>>

Reset == /\ Rec[l].ev = "Reset"
         /\ regs' = <<>> /\ reps' = <<>> /\ UNCHANGED bad

\* None is the answer only for an overflow: not when the result and (for sub) the negated operand are representable
CheckedMustSucceed(rs, op) == /\ Representable(Result(rs, op))
                              /\ op.op = "sub" => Representable(VNeg(rs[op.j]))
OpEvent ==
    /\ Rec[l].ev = "Op"
    /\ LET e == Rec[l]
           exp == Result(regs, e.op)
       IN  \* (an IR-level chain may refuse - an intermediate amount can leave the code's integers although the result
           \*  fits -; a refusal is not a wrong value)
           IF "ir_error" \in DOMAIN e.res
           THEN regs' = Append(regs, exp) /\ reps' = Append(reps, exp) /\ bad' = bad
           ELSE IF "panic" \in DOMAIN e.res
           THEN /\ regs' = Append(regs, exp) /\ reps' = Append(reps, exp)
                /\ bad' = IF Representable(exp)
                          THEN Flag("panic", [op |-> e.op.op, site |-> e.res.panic.file, msg |-> e.res.panic.msg])
                          ELSE bad     \* overflow of the code's integers: unconstrained
           ELSE LET obs == ValOf(e.res.entries)
                IN  /\ regs' = Append(regs, obs) /\ reps' = Append(reps, RepOf(e.res))
                    /\ bad' = IF ~Representable(exp) THEN bad
                              ELSE IF obs # exp THEN Flag("value", [op |-> e.op.op])
                              \* the checked variant of the operation (the one the reducer folds with) yields the same value
                              ELSE IF e.res.checked.k = "panic" THEN Flag("checked-panic", [op |-> e.op.op])
                              ELSE IF e.res.checked.k = "some" /\ ValOf(e.res.checked.entries) # exp THEN Flag("checked-value", [op |-> e.op.op])
                              ELSE IF e.res.checked.k = "none" /\ CheckedMustSucceed(regs, e.op) THEN Flag("checked-none", [op |-> e.op.op])
                              ELSE bad

ObsMismatch(e, exp) ==
    LET o == e.res
        x == reps[e.i]  y == reps[e.j]
    IN  IF o.eq # exp.eq
        THEN IF o.eq = RepEqDerived(x, y) THEN "deviation:EqOnRepresentation" ELSE "obs:eq"
        ELSE IF o.is_empty # exp.is_empty THEN "obs:is_empty"
        ELSE IF o.is_empty_or_negative # exp.is_empty_or_negative THEN "obs:is_empty_or_negative"
        ELSE IF o.is_only_naked # exp.is_only_naked
             THEN IF o.is_only_naked = (DOMAIN x \subseteq {Naked}) THEN "deviation:ZeroEntryVisible"
                  ELSE "obs:is_only_naked"
        ELSE IF exp.ordered /\ o.contains_total # exp.contains_total THEN "obs:contains_total"
        ELSE IF exp.ordered /\ o.contains_some # exp.contains_some THEN "obs:contains_some"
        \* zero entries are immaterial for every observer, also where its answer is otherwise not specified
        ELSE IF o.contains_total # o.norm.contains_total THEN "zero-entry:contains_total"
        ELSE IF o.contains_some # o.norm.contains_some THEN "zero-entry:contains_some"
        ELSE IF o.is_empty_or_negative # o.norm.is_empty_or_negative THEN "zero-entry:is_empty_or_negative"
        ELSE "ok"

ObsEvent ==
    /\ Rec[l].ev = "Obs"
    /\ UNCHANGED <<regs, reps>>
    /\ LET e == Rec[l]
       IN  IF "panic" \in DOMAIN e.res
           THEN bad' = Flag("panic", [op |-> "obs", site |-> e.res.panic.file, msg |-> e.res.panic.msg])
           ELSE LET m == ObsMismatch(e, Observe(regs[e.i], regs[e.j]))
                IN  bad' = IF m = "ok" THEN bad ELSE Flag(m, [op |-> "obs"])

Next == /\ l <= Len(Rec)
        /\ l' = l + 1
        /\ (Reset \/ OpEvent \/ ObsEvent)

Done == l = Len(Rec) + 1
Report == Done => PrintT(<<"VERDICT", ToJson([n |-> Len(Rec), bad |-> bad])>>)
AllConsumed == TLCGet("stats").diameter = Len(Rec) + 1
=============================================================================
