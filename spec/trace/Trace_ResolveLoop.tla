-------------------------- MODULE Trace_ResolveLoop --------------------------
(***************************************************************************)
(* Trace validation for C05 and C20: executions of resolve_tx observed through *)
(* the recording compiler.                                                    *)
(*   Case    tpl, cfg, store (ref -> lovelace)                                *)
(*   Begin   instance ("A": shared compiler, "B": fresh), pos, last            *)
(*   MinUtxo index, had_mem, result      (a min_utxo evaluated by the compiler)*)
(*   Round   n, had_mem, body_fee, len, reported, digest, out_lovelace,        *)
(*           out_sizes, bound                                                  *)
(*   Result  outcome, fee, body_fee, len, digest, out_lovelace                 *)
(* C05 reasons: fee-in, fee-formula, change, round-cap, fixed-point,           *)
(*   deviation:ReturnAtCap, result-not-last-round, hash.                       *)
(* C20 reasons: history-dependence, deviation:StaleMem.  min-utxo: both.       *)
(***************************************************************************)
EXTENDS ResolveLoop, Json, IOUtils, TLC, FiniteSets

Rec == ndJsonDeserialize(IOEnv.TRACE)

VARIABLES l, case, cur, mem, targetA, bad
vars == <<l, case, cur, mem, targetA, bad>>

SetOf(s) == {s[i] : i \in DOMAIN s}
Flag(why, detail) == Append(bad, [line |-> l, why |-> why, detail |-> detail])
NoCase == [k |-> "none"]
NoMem == <<-1>>
Idle == [inst |-> "A", pos |-> 0, last |-> FALSE, n |-> 0, prevReported |-> Zero, digests |-> <<>>, mins |-> <<>>]

Init == l = 1 /\ case = NoCase /\ cur = Idle /\ mem = [A |-> NoMem, B |-> NoMem] /\ targetA = NoCase /\ bad = <<>>

Reset == /\ Rec[l].ev = "Reset" /\ case' = NoCase /\ cur' = Idle /\ mem' = [A |-> NoMem, B |-> NoMem]
         /\ targetA' = NoCase /\ UNCHANGED bad
CaseEv == Rec[l].ev = "Case" /\ case' = [k |-> "some", tpls |-> Rec[l].tpls, cfg |-> Rec[l].cfg, store |-> Rec[l].store]
          /\ UNCHANGED <<cur, mem, targetA, bad>>
BeginEv == /\ Rec[l].ev = "Begin"
           /\ cur' = [Idle EXCEPT !.inst = Rec[l].instance, !.pos = Rec[l].pos, !.last = Rec[l].last]
           \* a resolution starts by making the compiler forget the last body it compiled
           /\ mem' = [mem EXCEPT ![Rec[l].instance] = NoMem]
           /\ UNCHANGED <<case, targetA, bad>>
FrontEv == Rec[l].ev = "Front" /\ UNCHANGED <<case, cur, mem, targetA>>
           /\ bad' = Flag("front-end", [outcome |-> Rec[l].outcome])

Tpl == case.tpls[cur.pos]
HasMem == mem[cur.inst] # NoMem

MinUtxoEv ==
    /\ Rec[l].ev = "MinUtxo" /\ UNCHANGED <<case, mem, targetA>>
    /\ LET e == Rec[l]
           sizes == mem[cur.inst]
           expected == IF e.had_mem
                       \* (a remembered body that lacks the position - an optional output was dropped - is sized as if nothing were remembered)
                       THEN IF e.index + 1 \in DOMAIN sizes THEN MinUtxoFromSize(case.cfg, sizes[e.index + 1])
                            ELSE MinUtxoDefault(case.cfg)
                       ELSE MinUtxoDefault(case.cfg)
       IN  /\ cur' = [cur EXCEPT !.mins = Append(cur.mins, IF e.ok THEN e.result ELSE Zero)]
           /\ bad' = IF e.had_mem /\ ~HasMem     \* the code still remembers an earlier transaction
                     THEN Flag("deviation:StaleMem", [index |-> e.index, ok |-> e.ok])
                     ELSE IF e.had_mem # HasMem THEN Flag("mem-tracking", [had |-> e.had_mem])
                     ELSE IF ~e.ok THEN Flag("min-utxo", [index |-> e.index, why |-> "failed"])
                     ELSE IF ~Eq(e.result, expected) THEN Flag("min-utxo", [index |-> e.index, why |-> "value"])
                     ELSE bad

RECURSIVE SumRefs(_, _)
SumRefs(store, refs) == IF refs = {} THEN Zero
                        ELSE LET r == CHOOSE r \in refs : TRUE
                             IN  Add(IF \E i \in DOMAIN store : store[i].ref = r
                                     THEN store[CHOOSE i \in DOMAIN store : store[i].ref = r].lovelace ELSE Zero,
                                     SumRefs(store, refs \ {r}))
BoundTotal(bound) == SumRefs(case.store, UNION {SetOf(bound[i].refs) : i \in DOMAIN bound})

\* what the outputs of the template must hold, given the fee in the body and the min_utxo
\* values the compiler produced in this round
ExpectedOuts(tpl, bodyFee, total, mins) ==
    IF tpl.kind = "transfer"
    THEN <<tpl.send, Sub(Sub(total, tpl.send), bodyFee)>>
    ELSE IF tpl.kind = "transfer_min" /\ Len(mins) >= 1
    THEN <<mins[1], Sub(Sub(total, bodyFee), mins[1])>>
    ELSE <<>>

RoundEv ==
    /\ Rec[l].ev = "Round" /\ UNCHANGED <<case, targetA>>
    /\ LET e == Rec[l] IN
       IF e.outcome # "ok"
       THEN /\ cur' = [cur EXCEPT !.n = cur.n + 1, !.mins = <<>>] /\ UNCHANGED <<mem, bad>>
       ELSE LET exp == ExpectedOuts(Tpl, e.body_fee, BoundTotal(e.bound), cur.mins)
            IN  /\ cur' = [cur EXCEPT !.n = cur.n + 1, !.prevReported = e.reported,
                                      !.digests = Append(cur.digests, e.digest), !.mins = <<>>]
                /\ mem' = [mem EXCEPT ![cur.inst] = e.out_sizes]
                /\ bad' = IF e.n # cur.n + 1 THEN Flag("round-numbering", [n |-> e.n])
                          ELSE IF ~Eq(e.body_fee, cur.prevReported) THEN Flag("fee-in", [round |-> e.n])
                          ELSE IF ~Eq(e.reported, LinearFee(case.cfg, e.len)) THEN Flag("fee-formula", [round |-> e.n])
                          ELSE IF e.n > MaxEvals(case.cfg) THEN Flag("round-cap", [round |-> e.n])
                          \* a negative expectation is an arithmetic matter (C02), not a fee-loop one
                          ELSE IF exp # <<>> /\ (\A i \in DOMAIN exp : ~IsNeg(exp[i]))
                                  /\ (Len(e.out_lovelace) # Len(exp)
                                                 \/ \E i \in DOMAIN exp : ~Eq(e.out_lovelace[i], exp[i]))
                               THEN Flag("change", [round |-> e.n, kind |-> Tpl.kind])
                          ELSE bad

Summary(e) == IF e.outcome = "ok" THEN [outcome |-> "ok", digest |-> e.digest, fee |-> e.fee, kind |-> "", site |-> ""]
              ELSE IF e.outcome = "err" THEN [outcome |-> "err", digest |-> "", fee |-> Zero, kind |-> e.kind, site |-> ""]
              ELSE [outcome |-> "panic", digest |-> "", fee |-> Zero, kind |-> "", site |-> e.site]
Oscillates(ds) == Len(ds) >= 3 /\ ds[Len(ds)] = ds[Len(ds) - 2] /\ ds[Len(ds)] # ds[Len(ds) - 1]

ResultEv ==
    /\ Rec[l].ev = "Result" /\ UNCHANGED <<case, cur, mem>>
    /\ LET e == Rec[l]
           s == Summary(e)
           own == IF e.outcome = "panic" THEN Flag("panic", [site |-> e.site, msg |-> e.msg, pos |-> cur.pos])
                  ELSE IF e.outcome = "err" THEN bad
                  ELSE IF ~e.hash_ok THEN Flag("hash", [pos |-> cur.pos])
                  ELSE IF cur.digests = <<>> \/ e.digest # cur.digests[Len(cur.digests)]
                       THEN Flag("result-not-last-round", [rounds |-> cur.n])
                  ELSE IF ~Eq(e.body_fee, e.fee)
                       THEN IF Oscillates(cur.digests) /\ cur.n >= MaxEvals(case.cfg)
                            THEN Flag("deviation:ReturnAtCap", [rounds |-> cur.n])
                            ELSE Flag("fixed-point", [rounds |-> cur.n])
                  ELSE IF ~Eq(e.fee, LinearFee(case.cfg, e.len)) THEN Flag("fee-formula", [round |-> 0])
                  ELSE bad
       IN  IF cur.last /\ cur.inst = "A"
           THEN targetA' = ([k |-> "some"] @@ s) /\ bad' = own
           ELSE IF cur.last /\ cur.inst = "B" /\ targetA.k = "some"
           THEN /\ UNCHANGED targetA
                /\ bad' = IF own # bad THEN own
                          ELSE IF targetA.outcome # s.outcome \/ targetA.digest # s.digest \/ ~Eq(targetA.fee, s.fee)
                                  \/ (s.outcome = "err" /\ targetA.kind # s.kind)
                               THEN Flag("history-dependence", [shared |-> targetA.outcome, fresh |-> s.outcome,
                                                                kind |-> targetA.kind, site |-> targetA.site])
                          ELSE bad
           ELSE UNCHANGED targetA /\ bad' = own

Next == /\ l <= Len(Rec)
        /\ l' = l + 1
        /\ (Reset \/ CaseEv \/ BeginEv \/ FrontEv \/ MinUtxoEv \/ RoundEv \/ ResultEv)

Done == l = Len(Rec) + 1
Report == Done => PrintT(<<"VERDICT", ToJson([n |-> Len(Rec), bad |-> bad])>>)
AllConsumed == TLCGet("stats").diameter = Len(Rec) + 1
=============================================================================
