---------------------------- MODULE Trace_Backend ----------------------------
(* Trace validation for C14: every recorded stage outcome must be one the       *)
(* Backend specification has an action for.                                     *)
EXTENDS Backend, Json, IOUtils, TLC, Sequences, Naturals

Rec == ndJsonDeserialize(IOEnv.TRACE)
VARIABLES l, bad
vars == <<l, bad>>
Flag(why, detail) == Append(bad, [line |-> l, why |-> why, detail |-> detail])
Init == l = 1 /\ bad = <<>>
Skip == Rec[l].ev \in {"Reset", "Case"} /\ UNCHANGED bad
StageEv == /\ Rec[l].ev = "Stage"
           /\ LET e == Rec[l] IN
              bad' = IF e.outcome = "tool" THEN Flag("tool", [stage |-> e.name, site |-> e.site, msg |-> e.msg])
                     ELSE IF e.name \notin StageNames THEN Flag("tool", [stage |-> e.name, site |-> "unknown stage", msg |-> ""])
                     ELSE IF e.outcome \notin StageOutcomes
                          THEN Flag("panic", [stage |-> e.name, outcome |-> e.outcome, site |-> e.site, msg |-> e.msg])
                     ELSE bad
Next == l <= Len(Rec) /\ l' = l + 1 /\ (Skip \/ StageEv)
Done == l = Len(Rec) + 1
Report == Done => PrintT(<<"VERDICT", ToJson([n |-> Len(Rec), bad |-> bad])>>)
AllConsumed == TLCGet("stats").diameter = Len(Rec) + 1
=============================================================================
