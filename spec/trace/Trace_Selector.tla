---------------------------- MODULE Trace_Selector ----------------------------
(***************************************************************************)
(* Trace validation for C03 and C04: executions of tx3_resolver::inputs::     *)
(* resolve (recording store) and resolve_tx (recording compiler).             *)
(*   Store     utxos                                                          *)
(*   Queries   items (sorted by block name, the order the resolver visits)    *)
(*   Attempt   n              (the same case is run several times: the code's *)
(*                             hash-set order makes window and ties random)   *)
(*   Narrow    pattern, result                                                *)
(*   Fetch     refs, returned (the window of the next block)                  *)
(*   Resolved  bound | NotResolved name | Error kind                          *)
(*   TxInputs  inputs, bound  (decoded body of the transaction returned)      *)
(***************************************************************************)
EXTENDS BigInt, Sequences, FiniteSets, Json, IOUtils, TLC

Rec == ndJsonDeserialize(IOEnv.TRACE)
WMax == 50
NoAddrC == <<-1>>

Sel == INSTANCE Selector WITH NGe <- Ge, NAdd <- Add, NZero <- Zero, NIsPos <- IsPos,
                              IsToken <- LAMBDA c : c.k = "defined", Lovelace <- [k |-> "naked"],
                              NoAddr <- NoAddrC

VARIABLES l, store, qs, wins, bad
vars == <<l, store, qs, wins, bad>>

SetOf(s) == {s[i] : i \in DOMAIN s}
EntriesVal(entries) ==
    LET f == [c \in {entries[i].c : i \in DOMAIN entries} |->
                 entries[CHOOSE i \in DOMAIN entries : entries[i].c = c].n]
    IN  [c \in {c \in DOMAIN f : ~IsZero(f[c])} |-> f[c]]
StoreOf(utxos) == [r \in {utxos[i].ref : i \in DOMAIN utxos} |->
                      LET u == utxos[CHOOSE i \in DOMAIN utxos : utxos[i].ref = r]
                      IN  [addr |-> u.address, assets |-> EntriesVal(u.assets)]]
QueryOf(q) == [name |-> q.name, address |-> q.address, refs |-> SetOf(q.refs), min |-> EntriesVal(q.min),
               many |-> q.many, collateral |-> q.collateral]
Shape(q) == [from |-> q.address # NoAddrC, ref |-> q.refs # {}, min |-> DOMAIN q.min # {},
             many |-> q.many, collateral |-> q.collateral]
Flag(why, detail) == Append(bad, [line |-> l, why |-> why, detail |-> detail])

Init == l = 1 /\ store = <<>> /\ qs = <<>> /\ wins = <<>> /\ bad = <<>>

Reset == Rec[l].ev = "Reset" /\ store' = <<>> /\ qs' = <<>> /\ wins' = <<>> /\ UNCHANGED bad
StoreEv == Rec[l].ev = "Store" /\ store' = StoreOf(Rec[l].utxos) /\ UNCHANGED <<qs, wins, bad>>
QueriesEv == /\ Rec[l].ev = "Queries"
             /\ qs' = [i \in DOMAIN Rec[l].items |-> QueryOf(Rec[l].items[i])]
             /\ UNCHANGED <<store, wins, bad>>
AttemptEv == Rec[l].ev = "Attempt" /\ wins' = <<>> /\ UNCHANGED <<store, qs, bad>>
NarrowEv == Rec[l].ev = "Narrow" /\ UNCHANGED <<store, qs, wins, bad>>
FetchEv == /\ Rec[l].ev = "Fetch"
           /\ wins' = Append(wins, [refs |-> SetOf(Rec[l].refs), returned |-> SetOf(Rec[l].returned)])
           /\ UNCHANGED <<store, qs, bad>>

BoundOf(bound, name) ==
    IF \E i \in DOMAIN bound : bound[i].name = name
    THEN SetOf(bound[CHOOSE i \in DOMAIN bound : bound[i].name = name].refs)
    ELSE {}

\* check block k given what earlier blocks took; returns a flag record or "ok", then recurses
RECURSIVE CheckFrom(_, _, _, _)
CheckFrom(k, bound, taken, takenColl) ==
    IF k > Len(qs) THEN [why |-> "ok"]
    ELSE LET q == qs[k]
             B == BoundOf(bound, q.name)
             ign == IF q.collateral THEN takenColl ELSE taken
             W == IF k <= Len(wins) THEN wins[k].refs \cap DOMAIN store ELSE {}
             R == IF k <= Len(wins) THEN wins[k].returned ELSE {}
             cand == Sel!Cand(store, q)
             u == Sel!Unsound(store, q, B)
         IN  IF u # "ok" THEN [why |-> "unsound", detail |-> [reason |-> u, shape |-> Shape(q)]]
             ELSE IF ~q.collateral /\ B \cap taken # {} THEN [why |-> "overlap", detail |-> [shape |-> Shape(q)]]
             ELSE IF W \cap ign # {} THEN [why |-> "ignored-refetched", detail |-> [shape |-> Shape(q)]]
             ELSE IF ~(W \subseteq cand)
                  THEN IF W \subseteq (cand \cup Sel!UnionSpace(store, q))
                       THEN [why |-> "deviation:TakeWithUnionFallback", detail |-> [shape |-> Shape(q)]]
                       ELSE [why |-> "window-outside-candidates", detail |-> [shape |-> Shape(q)]]
             ELSE IF ~(B \subseteq R) THEN [why |-> "bound-not-fetched", detail |-> [shape |-> Shape(q)]]
             ELSE CheckFrom(k + 1, bound,
                            IF q.collateral THEN taken ELSE taken \cup B,
                            IF q.collateral THEN takenColl \cup B ELSE takenColl)

ResolvedEv ==
    /\ Rec[l].ev = "Resolved" /\ UNCHANGED <<store, qs, wins>>
    /\ LET r == CheckFrom(1, Rec[l].bound, {}, {})
       IN  bad' = IF r.why = "ok" THEN bad ELSE Flag(r.why, r.detail)

IndexOf(name) == CHOOSE i \in DOMAIN qs : qs[i].name = name
NotResolvedEv ==
    /\ Rec[l].ev = "NotResolved" /\ UNCHANGED <<store, qs, wins>>
    /\ LET k == IndexOf(Rec[l].name)
           q == qs[k]
           W == IF k <= Len(wins) THEN wins[k].refs \cap DOMAIN store ELSE {}
           cand == Sel!Cand(store, q)
           earlier == UNION {wins[j].refs : j \in {j \in 1..(k-1) : j <= Len(wins) /\ qs[j].collateral = q.collateral}}
           \* candidates that are certainly still available: fetched now, or (when all candidates
           \* fit the window) never offered to an earlier block of the same kind
           avail == (cand \cap W) \cup (IF Cardinality(cand) <= WMax THEN cand \ earlier ELSE {})
       IN  bad' = IF Sel!TooBroad(q) THEN Flag("not-resolved-but-too-broad", [shape |-> Shape(q)])
                  ELSE IF Cardinality(q.refs) <= 1 /\ Sel!Resolvable(store, q, avail)
                       THEN Flag("incomplete", [shape |-> Shape(q)])     \* multi-ref queries: soundness only
                  ELSE bad

ErrorEv ==
    /\ Rec[l].ev = "Error" /\ UNCHANGED <<store, qs, wins>>
    /\ LET k == Len(wins) + 1
       IN  bad' = IF Rec[l].kind = "too-broad"
                  THEN IF k <= Len(qs) /\ Sel!TooBroad(qs[k]) THEN bad
                       ELSE Flag("too-broad-unexpected", [shape |-> IF k <= Len(qs) THEN Shape(qs[k]) ELSE <<>>])
                  ELSE IF Rec[l].kind = "panic" THEN Flag("panic", [site |-> Rec[l].site, msg |-> Rec[l].msg])
                  ELSE Flag("error", [kind |-> Rec[l].kind])

RECURSIVE PairwiseDisjoint(_, _)
PairwiseDisjoint(sets, acc) ==
    IF sets = <<>> THEN TRUE
    ELSE Head(sets) \cap acc = {} /\ PairwiseDisjoint(Tail(sets), acc \cup Head(sets))
RECURSIVE SumCard(_)
SumCard(sets) == IF sets = <<>> THEN 0 ELSE Cardinality(Head(sets)) + SumCard(Tail(sets))

TxInputsEv ==
    /\ Rec[l].ev = "TxInputs" /\ UNCHANGED <<store, qs, wins>>
    /\ LET e == Rec[l]
       IN  bad' =
           IF e.outcome = "panic" THEN Flag("panic", [site |-> e.site, msg |-> e.msg])
           ELSE IF e.outcome = "err" THEN bad              \* failing is allowed; reuse is not
           ELSE LET ins == e.inputs
                    sets == [i \in DOMAIN e.bound |-> SetOf(e.bound[i].refs)]
                    all == UNION {sets[i] : i \in DOMAIN sets}
                IN  IF Cardinality(SetOf(ins)) # Len(ins) THEN Flag("dup-inputs", [n |-> Len(ins)])
                    ELSE IF ~PairwiseDisjoint(sets, {}) THEN Flag("overlap", [where |-> "resolve_tx"])
                    ELSE IF SetOf(ins) # all THEN Flag("inputs-mismatch", [n |-> Len(ins)])
                    ELSE IF Len(ins) # SumCard(sets) THEN Flag("inputs-count", [n |-> Len(ins)])
                    ELSE IF SetOf(e.collateral) # SetOf(e.bound_collateral) THEN Flag("collateral-mismatch", [n |-> Len(e.collateral)])
                    ELSE bad

Next == /\ l <= Len(Rec)
        /\ l' = l + 1
        /\ (Reset \/ StoreEv \/ QueriesEv \/ AttemptEv \/ NarrowEv \/ FetchEv \/ ResolvedEv
            \/ NotResolvedEv \/ ErrorEv \/ TxInputsEv)

Done == l = Len(Rec) + 1
Report == Done => PrintT(<<"VERDICT", ToJson([n |-> Len(Rec), bad |-> bad])>>)
AllConsumed == TLCGet("stats").diameter = Len(Rec) + 1
=============================================================================
