---------------------------- MODULE Trace_Staging ----------------------------
(***************************************************************************)
(* Trace validation for C06 and C07.  One Reset-delimited case is ONE         *)
(* template with its environment, followed by any number of schedules run on  *)
(* the real crates:                                                          *)
(*   Case      tx, env                      (the abstract template + values)  *)
(*   Template  find_params, find_queries, walk   (what the code reports; the  *)
(*             driver's own serde walk)                                       *)
(*   Refusals  [param, outcome]             (resolve_tx with one arg removed) *)
(*   Sched     steps                        (the schedule about to be run)    *)
(*   Step      stage, outcome, idem         (one real API call)               *)
(*   Final     outcome, values, walk        (projected final template)        *)
(* C06 reasons: unreported-param, unreported-query, spec-walk, residual,      *)
(*              refusal.  C07 reasons: idem, meaning, value, failed,          *)
(*              confluence, schedule.                                         *)
(***************************************************************************)
EXTENDS Staging, Json, IOUtils

Rec == ndJsonDeserialize(IOEnv.TRACE)

VARIABLES l, cur, bad
vars == <<l, cur, bad>>
\* cur = [tx, expected, sched, pos, failed, first]  (first: outcome of the first schedule)

SetOf(s) == {s[i] : i \in DOMAIN s}
Flag(why, detail) == Append(bad, [line |-> l, why |-> why, detail |-> detail])
Idle == [tx |-> None, env |-> None, expected |-> <<>>, params |-> {}, sched |-> <<>>, pos |-> 0,
         failed |-> "no", first |-> None, kind |-> "full"]

Init == l = 1 /\ cur = Idle /\ bad = <<>>

Reset == Rec[l].ev = "Reset" /\ cur' = Idle /\ UNCHANGED bad

CaseEv ==
    /\ Rec[l].ev = "Case"
    /\ cur' = [Idle EXCEPT !.tx = Rec[l].tx, !.env = Rec[l].env, !.expected = EvalTx(Rec[l].tx, Rec[l].env),
                           !.params = TxParamNames(Rec[l].tx)]
    /\ UNCHANGED bad

TemplateEv ==
    /\ Rec[l].ev = "Template"
    /\ UNCHANGED cur
    /\ LET e == Rec[l]
           fp == SetOf(e.find_params)  fq == SetOf(e.find_queries)
           wp == SetOf(e.walk.params)  wq == SetOf(e.walk.queries)
           sp == TxParamNames(cur.tx)  sq == TxQueryNames(cur.tx)
       IN  bad' = IF ~(wp \subseteq fp) THEN Flag("unreported-param", [names |-> wp \ fp])
                  ELSE IF ~(wq \subseteq fq) THEN Flag("unreported-query", [names |-> wq \ fq])
                  ELSE IF ~(sp \subseteq fp) \/ ~(sq \subseteq fq)
                       THEN Flag("spec-walk", [names |-> (sp \ fp) \cup (sq \ fq)])
                  ELSE IF wp # sp \/ wq # sq THEN Flag("projection", [names |-> (wp \ sp) \cup (sp \ wp)])
                  ELSE bad

RefusalsEv ==
    /\ Rec[l].ev = "Refusals"
    /\ UNCHANGED cur
    /\ LET rs == Rec[l].items
           wrong == {i \in DOMAIN rs : ~(rs[i].outcome = "missing" /\ rs[i].key = rs[i].param)}
       IN  bad' = IF wrong = {} THEN bad
                  ELSE Flag("refusal", [param |-> rs[CHOOSE i \in wrong : TRUE].param,
                                        outcome |-> rs[CHOOSE i \in wrong : TRUE].outcome])

SchedEv ==
    /\ Rec[l].ev = "Sched"
    /\ cur' = [cur EXCEPT !.sched = Rec[l].steps, !.pos = 0, !.failed = "no", !.kind = Rec[l].kind]
    /\ bad' = IF (Rec[l].kind = "full" /\ ValidSchedule(cur.tx, Rec[l].steps))
                 \/ (Rec[l].kind = "closure" /\ StagesOf(Rec[l].steps) = {"args", "inputs", "fees"})
              THEN bad
              ELSE Flag("schedule", [steps |-> Rec[l].steps])

Drifted(terms) == {i \in DOMAIN cur.expected : ~Bad(cur.expected[i])
                                                 /\ (i \notin DOMAIN terms \/ Eval(terms[i], cur.env) # cur.expected[i])}
StepEv ==
    /\ Rec[l].ev = "Step"
    /\ LET e == Rec[l]
           p == cur.pos + 1
       IN  /\ cur' = [cur EXCEPT !.pos = p,
                        !.failed = IF cur.failed = "no" /\ e.outcome # "ok" THEN e.stage ELSE cur.failed]
           /\ bad' = IF p > Len(cur.sched) \/ cur.sched[p] # e.stage
                     THEN Flag("schedule", [stage |-> e.stage])
                     ELSE IF e.idem = "no" THEN Flag("idem", [stage |-> e.stage])
                     \* Reducer!MeaningPreserved on the real intermediate template: whatever has been applied and
                     \* reduced so far, every component still denotes, under the full environment, what the
                     \* untouched template denotes ("reducing a partially applied template never changes what the
                     \* later stages will produce", checked at the step that would change it)
                     ELSE IF cur.kind = "full" /\ e.terms # <<>> /\ Drifted(e.terms) # {}
                          THEN Flag("meaning", [stage |-> e.stage, slot |-> CHOOSE i \in Drifted(e.terms) : TRUE,
                                                tag |-> TxKids(cur.tx)[CHOOSE i \in Drifted(e.terms) : TRUE].k])
                     ELSE bad

Positions(vs, exp) == {i \in DOMAIN exp : ~Bad(exp[i]) /\ (i \notin DOMAIN vs \/ Norm(vs[i]) # exp[i])}
AnyErr(exp) == \E i \in DOMAIN exp : IsErr(exp[i])
AnyUnspec(exp) == \E i \in DOMAIN exp : IsUnspec(exp[i])

FinalEv ==
    /\ Rec[l].ev = "Final"
    /\ LET e == Rec[l]
           exp == cur.expected
           summary == IF e.outcome = "ok"
                      THEN [outcome |-> "ok", values |-> FlatMap(LAMBDA x : <<Norm(x)>>, e.values)]
                      ELSE [outcome |-> "err", values |-> <<>>]
           verdict ==
             IF e.outcome = "panic" THEN Flag("panic", [site |-> e.site, msg |-> e.msg, stage |-> e.stage])
             ELSE IF cur.kind = "closure"
             THEN IF e.outcome = "ok" /\ (e.walk.params # <<>> \/ e.walk.queries # <<>> \/ e.walk.fees)
                  THEN Flag("residual", [params |-> e.walk.params, queries |-> e.walk.queries])
                  ELSE bad
             ELSE IF e.outcome = "ok"
             THEN IF AnyErr(exp) THEN Flag("accepted", [kind |-> "an error was expected"])
                  ELSE IF Positions(e.values, exp) # {}
                       THEN Flag("value", [slot |-> CHOOSE i \in Positions(e.values, exp) : TRUE,
                                           tag |-> TxKids(cur.tx)[CHOOSE i \in Positions(e.values, exp) : TRUE].k])
                  ELSE IF e.walk.params # <<>> \/ e.walk.queries # <<>> \/ e.walk.fees
                       THEN Flag("residual", [params |-> e.walk.params, queries |-> e.walk.queries])
                  ELSE IF cur.first.k # "none" /\ cur.first.s # summary
                       THEN Flag("confluence", [stage |-> "final"])
                  ELSE bad
             ELSE \* the run failed at some step
                  IF ~AnyErr(exp) /\ ~AnyUnspec(exp) THEN Flag("failed", [stage |-> e.stage, kind |-> e.kind])
                  ELSE IF cur.first.k # "none" /\ cur.first.s.outcome # "err"
                       THEN Flag("confluence", [stage |-> e.stage])
                  ELSE bad
       IN  /\ bad' = verdict
           /\ cur' = [cur EXCEPT !.first = IF cur.first.k = "none" THEN [k |-> "some", s |-> summary] ELSE cur.first]

Next == /\ l <= Len(Rec)
        /\ l' = l + 1
        /\ (Reset \/ CaseEv \/ TemplateEv \/ RefusalsEv \/ SchedEv \/ StepEv \/ FinalEv)

Done == l = Len(Rec) + 1
Report == Done => PrintT(<<"VERDICT", ToJson([n |-> Len(Rec), bad |-> bad])>>)
AllConsumed == TLCGet("stats").diameter = Len(Rec) + 1
=============================================================================
