------------------------------ MODULE Trace_Lang ------------------------------
(***************************************************************************)
(* Trace validation for C01, C02, C08, C09 and C10: the whole pipeline        *)
(* (parse, analyse, lower, apply, reduce, compile) run by the driver on        *)
(* printed programs; the decoded payload is compared with DenoteTx.            *)
(*   Case      prog, env                                                      *)
(*   Pipeline  layout, outcome, decoded, payload      (one per layout / run)   *)
(*   Repro     first, second                          (payload of a 2nd process)*)
(***************************************************************************)
EXTENDS Lang, Json, IOUtils

Rec == ndJsonDeserialize(IOEnv.TRACE)

VARIABLES l, exp, net, first, bad
vars == <<l, exp, net, first, bad>>
Flag(why, detail) == Append(bad, [line |-> l, why |-> why, detail |-> detail])

Init == l = 1 /\ exp = [k |-> "none"] /\ net = 0 /\ first = "" /\ bad = <<>>
Reset == Rec[l].ev = "Reset" /\ exp' = [k |-> "none"] /\ net' = 0 /\ first' = "" /\ UNCHANGED bad
CaseEv == /\ Rec[l].ev = "Case"
          /\ exp' = DenoteTx(Rec[l].prog, Rec[l].env) /\ net' = Rec[l].env.cfg.network /\ first' = ""
          /\ UNCHANGED bad

\* every Plutus Data tree carried by the transaction uses the standard framing (C09)
TreesOf(d) == {d.outputs[i].datum.data : i \in {i \in DOMAIN d.outputs : d.outputs[i].datum.k = "inline"}}
              \cup {d.redeemers[i].data : i \in DOMAIN d.redeemers}

PipelineEv ==
    /\ Rec[l].ev = "Pipeline" /\ UNCHANGED <<exp, net>>
    /\ LET e == Rec[l] IN
       /\ first' = IF first = "" /\ e.outcome = "ok" THEN e.payload ELSE first
       /\ bad' =
          IF e.outcome = "panic" THEN Flag("panic", [site |-> e.site, msg |-> e.msg, stage |-> e.stage])
          ELSE IF exp.k = "unspec" THEN bad
          ELSE IF exp.k = "error"
               THEN IF e.outcome = "ok" THEN Flag("accepted", [why |-> exp.why]) ELSE bad
          ELSE IF e.outcome # "ok" THEN (IF exp.mayReject THEN bad ELSE Flag("rejected", [stage |-> e.stage, kind |-> e.kind]))
          ELSE LET d == e.decoded
                   df == Diff(exp, ObsTx(d))
                   wf == WellFormedReason(d, net)
               IN  \* (a payload that a standard decoder refuses is malformed before it is anything else: C10)
                   IF ~d.decodes THEN Flag("malformed", [reason |-> "not-conway", what |-> ""])
                   ELSE IF df.field # "ok" THEN Flag("field", df)
                   ELSE IF \E t \in TreesOf(d) : ~FramingOK(t) THEN Flag("framing", [field |-> "plutus-data"])
                   ELSE IF wf # "ok" THEN Flag("malformed", [reason |-> wf,
                                                         what |-> IF wf = "empty-entry" THEN d.empties[1]
                                                                  ELSE IF wf = "duplicate-entry" THEN d.dups[1] ELSE ""])
                   ELSE IF first # "" /\ e.payload # first THEN Flag("layout", [layout |-> e.layout])
                   ELSE bad

ReproEv == /\ Rec[l].ev = "Repro" /\ UNCHANGED <<exp, net, first>>
           /\ bad' = IF Rec[l].first # Rec[l].second THEN Flag("repro", [where |-> Rec[l].where]) ELSE bad

\* C06 through the facade: supplying the arguments in several calls leaves the template that one call leaves, and none
\* of the supplied parameters is still waited for
FacadeEv == /\ Rec[l].ev = "Facade" /\ UNCHANGED <<exp, net, first>>
            /\ LET e == Rec[l] IN
               bad' = IF e.outcome = "panic" THEN Flag("panic", [site |-> "facade", msg |-> e.msg, stage |-> "facade"])
                      ELSE IF e.residual_single # <<>> THEN Flag("facade-residual", [calls |-> "one", names |-> e.residual_single])
                      ELSE IF e.residual_two_calls # <<>> THEN Flag("facade-residual", [calls |-> "two", names |-> e.residual_two_calls])
                      ELSE IF e.residual_one_by_one # <<>> THEN Flag("facade-residual", [calls |-> "one-by-one", names |-> e.residual_one_by_one])
                      ELSE IF ~e.two_calls_same THEN Flag("facade-history", [calls |-> "two"])
                      ELSE IF ~e.one_by_one_same THEN Flag("facade-history", [calls |-> "one-by-one"])
                      ELSE bad

Next == /\ l <= Len(Rec)
        /\ l' = l + 1
        /\ (Reset \/ CaseEv \/ PipelineEv \/ ReproEv \/ FacadeEv)

Done == l = Len(Rec) + 1
Report == Done => PrintT(<<"VERDICT", ToJson([n |-> Len(Rec), bad |-> bad])>>)
AllConsumed == TLCGet("stats").diameter = Len(Rec) + 1
=============================================================================
