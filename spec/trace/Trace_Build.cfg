INIT Init
NEXT Next
INVARIANT Report
POSTCONDITION AllConsumed
CHECK_DEADLOCK FALSE
