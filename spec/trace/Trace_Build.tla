----------------------------- MODULE Trace_Build -----------------------------
(* Trace validation for C17 (Tii events) and C18 (Built events).                 *)
EXTENDS Tii, Build, Json, IOUtils, TLC

Rec == ndJsonDeserialize(IOEnv.TRACE)
VARIABLES l, seen, nUsed, bad
vars == <<l, seen, nUsed, bad>>
Flag(why, detail) == Append(bad, [line |-> l, why |-> why, detail |-> detail])
Init == l = 1 /\ seen = <<>> /\ nUsed = 0 /\ bad = <<>>
Reset == Rec[l].ev = "Reset" /\ seen' = <<>> /\ nUsed' = 0 /\ UNCHANGED bad
CaseEv == Rec[l].ev = "Case" /\ nUsed' = Rec[l].nUsed /\ UNCHANGED <<seen, bad>>
BuiltEv == /\ Rec[l].ev = "Built" /\ UNCHANGED nUsed
           /\ LET e == Rec[l] IN
              /\ seen' = Record(seen, e.artifact, e.digest)
              /\ bad' = IF Consistent(seen, e.artifact, e.digest) THEN bad
                        ELSE Flag("nondeterministic", [artifact_kind |-> e.kind, where |-> e.where])
TiiEv == /\ Rec[l].ev = "Tii" /\ UNCHANGED <<seen, nUsed>>
         /\ LET e == Rec[l] IN
            bad' = IF e.outcome # "ok" THEN Flag("tii-undecodable", [outcome |-> e.outcome])
                   ELSE IF ~RequiredIsDeclared(e)
                        THEN Flag("required-not-declared", [missing |-> SetOf(e.required) \ Declared(e)])
                   ELSE IF ~NoCollapse(e) THEN Flag("names-collapse", [tx |-> e.tx])
                   \* (the number of names used is modelled for the transaction `transfer` only; a program may hold others)
                   ELSE IF e.tx = "transfer" /\ ~UsedAreRequired(e, nUsed) THEN Flag("used-not-required", [tx |-> e.tx])
                   ELSE IF ~e.tir_matches THEN Flag("tir-differs-from-lowering", [tx |-> e.tx])
                   \* a client that supplies precisely what the file declares (parameters and parties as arguments, the
                   \* environment entries as environment) gets every key the IR requires served by the request parser
                   ELSE IF e.client \in {"err", "panic"} THEN Flag("client-refused", [tx |-> e.tx, outcome |-> e.client])
                   ELSE IF e.client = "ok" /\ e.client_missing # <<>> THEN Flag("client-unserved", [tx |-> e.tx, missing |-> e.client_missing])
                   ELSE bad
Next == l <= Len(Rec) /\ l' = l + 1 /\ (Reset \/ CaseEv \/ BuiltEv \/ TiiEv)
Done == l = Len(Rec) + 1
Report == Done => PrintT(<<"VERDICT", ToJson([n |-> Len(Rec), bad |-> bad])>>)
AllConsumed == TLCGet("stats").diameter = Len(Rec) + 1
=============================================================================
