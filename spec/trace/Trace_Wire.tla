------------------------------ MODULE Trace_Wire ------------------------------
(***************************************************************************)
(* Trace validation for C11: encode/decode executions of the real crate.      *)
(*   Case        tx                      abstract term that was realised      *)
(*   RoundTrip   version, outcome, before, after, params_*, queries_*          *)
(*   Applied     original, decoded       (same application on both sides)      *)
(*   VersionGate version, outcome                                             *)
(*   Garbage     kind, outcome           (corrupted / hostile bytes)           *)
(***************************************************************************)
EXTENDS Wire, Json, IOUtils

Rec == ndJsonDeserialize(IOEnv.TRACE)

VARIABLES l, tx, strict, bad
vars == <<l, tx, strict, bad>>
Flag(why, detail) == Append(bad, [line |-> l, why |-> why, detail |-> detail])
SetOf(s) == {s[i] : i \in DOMAIN s}
NormSeq(s) == FlatMap(LAMBDA x : <<Norm(x)>>, s)

Init == l = 1 /\ tx = None /\ strict = FALSE /\ bad = <<>>
Reset == Rec[l].ev = "Reset" /\ tx' = None /\ strict' = FALSE /\ UNCHANGED bad
\* strict: the abstract term is canonical (enumerated by TLC), so the realisation can be cross-checked
CaseEv == Rec[l].ev = "Case" /\ tx' = Rec[l].tx /\ strict' = Rec[l].strict /\ UNCHANGED bad

RoundTripEv ==
    /\ Rec[l].ev = "RoundTrip" /\ UNCHANGED <<tx, strict>>
    /\ LET e == Rec[l]
           spec == Decode(Encode(e.before), e.version)
       IN  bad' =
           IF e.outcome = "panic" THEN Flag("panic", [site |-> e.site, msg |-> e.msg, op |-> "decode"])
           ELSE IF strict /\ NormTx(e.before) # NormTx(tx) THEN Flag("projection", [op |-> "build"])
           ELSE IF e.outcome # spec.outcome THEN Flag("roundtrip-outcome", [outcome |-> e.outcome])
           ELSE IF e.after # spec.term THEN Flag("roundtrip", [op |-> "structure"])
           ELSE IF SetOf(e.params_before) # SetOf(e.params_after) THEN Flag("params", [op |-> "find_params"])
           ELSE IF SetOf(e.queries_before) # SetOf(e.queries_after) THEN Flag("queries", [op |-> "find_queries"])
           ELSE bad

AppliedEv ==
    /\ Rec[l].ev = "Applied" /\ UNCHANGED <<tx, strict>>
    /\ LET a == Rec[l].original  b == Rec[l].decoded
       IN  bad' = IF a.outcome # b.outcome \/ NormSeq(a.values) # NormSeq(b.values)
                  THEN Flag("applied", [original |-> a.outcome, decoded |-> b.outcome])
                  ELSE bad

GateEv ==
    /\ Rec[l].ev = "VersionGate" /\ UNCHANGED <<tx, strict>>
    /\ LET e == Rec[l]
       IN  bad' = IF e.outcome = "panic" THEN Flag("panic", [site |-> e.site, msg |-> e.msg, op |-> "version"])
                  ELSE IF e.outcome # GateOutcome(e.version) THEN Flag("gate", [version |-> e.version, outcome |-> e.outcome])
                  ELSE bad

GarbageEv ==
    /\ Rec[l].ev = "Garbage" /\ UNCHANGED <<tx, strict>>
    /\ LET e == Rec[l]
       IN  bad' = IF e.outcome \in GarbageOutcomes THEN bad
                  ELSE IF e.outcome = "panic" THEN Flag("panic", [site |-> e.site, msg |-> e.msg, op |-> e.kind])
                  ELSE Flag("garbage", [kind |-> e.kind, outcome |-> e.outcome])

Next == /\ l <= Len(Rec)
        /\ l' = l + 1
        /\ (Reset \/ CaseEv \/ RoundTripEv \/ AppliedEv \/ GateEv \/ GarbageEv)

Done == l = Len(Rec) + 1
Report == Done => PrintT(<<"VERDICT", ToJson([n |-> Len(Rec), bad |-> bad])>>)
AllConsumed == TLCGet("stats").diameter = Len(Rec) + 1
=============================================================================
