---------------------------- MODULE Trace_Interop ----------------------------
(***************************************************************************)
(* Trace validation for C16.                                                   *)
(*   FromJson  type, form, kind, int, value (abstract term), outcome, got        *)
(*   Request   declared, args, env, envelope, outcome, keys, values, supplied   *)
(***************************************************************************)
EXTENDS Interop, Json, IOUtils, TLC

Rec == ndJsonDeserialize(IOEnv.TRACE)
VARIABLES l, bad
vars == <<l, bad>>
Flag(why, detail) == Append(bad, [line |-> l, why |-> why, detail |-> detail])
SetOf(s) == {s[i] : i \in DOMAIN s}
Init == l = 1 /\ bad = <<>>
Skip == Rec[l].ev = "Reset" /\ UNCHANGED bad

FromJsonEv ==
    /\ Rec[l].ev = "FromJson"
    /\ LET e == Rec[l]
           adm == IF e.kind = "form" THEN Admissible(e.type, e.form, e.int) ELSE ~ShapeIsBadFor(e.type, e.form)
       IN  bad' = IF e.outcome = "panic" THEN Flag("panic", [op |-> "from_json", site |-> e.site, msg |-> e.msg])
                  ELSE IF e.kind = "form" /\ adm /\ e.outcome # "ok" THEN Flag("rejected", [type |-> e.type, form |-> e.form])
                  ELSE IF e.kind = "form" /\ adm /\ e.got # e.value THEN Flag("altered", [type |-> e.type, form |-> e.form])
                  ELSE IF ~adm /\ e.outcome = "ok" THEN Flag("accepted", [type |-> e.type, form |-> e.form])
                  ELSE bad

RequestEv ==
    /\ Rec[l].ev = "Request"
    /\ LET e == Rec[l]
           exp == ExpectedKeys(SetOf(e.declared), SetOf(e.args), SetOf(e.env))
       IN  bad' = IF e.outcome = "panic" THEN Flag("panic", [op |-> "parse_resolve_request", site |-> e.site, msg |-> e.msg])
                  ELSE IF ~EnvelopeOK(e.envelope_class)
                       THEN IF e.outcome = "ok" THEN Flag("bad-envelope-accepted", [envelope |-> e.envelope]) ELSE bad
                  ELSE IF e.outcome # "ok" THEN Flag("request-rejected", [envelope |-> e.envelope])
                  ELSE IF SetOf(e.keys) # exp
                       THEN Flag("request-keys", [missing_from_env |-> (exp \ SetOf(e.keys)) \subseteq (SetOf(e.env) \ SetOf(e.args)),
                                                  extra |-> SetOf(e.keys) \ exp # {}])
                  ELSE IF \E k \in exp : e.values[k] # e.supplied[k] THEN Flag("request-values", [envelope |-> e.envelope])
                  ELSE bad

Next == l <= Len(Rec) /\ l' = l + 1 /\ (Skip \/ FromJsonEv \/ RequestEv)
Done == l = Len(Rec) + 1
Report == Done => PrintT(<<"VERDICT", ToJson([n |-> Len(Rec), bad |-> bad])>>)
AllConsumed == TLCGet("stats").diameter = Len(Rec) + 1
=============================================================================
