---------------------------- MODULE Trace_Frontend ----------------------------
(***************************************************************************)
(* Trace validation for C12, C13 and C19: front-end executions on generated    *)
(* source text.                                                               *)
(*   Source    len                                                            *)
(*   Parsed    outcome (+ span facts of the parse diagnostic)                  *)
(*   Analyzed  outcome, errors (span facts of every analysis diagnostic)       *)
(*   Lowered   tx, outcome, n_errors        Workspace  outcome, n_errors       *)
(* A `panic`, `abort` or `timeout` outcome has no matching action in Frontend.  *)
(***************************************************************************)
EXTENDS Frontend, Json, IOUtils, TLC

Rec == ndJsonDeserialize(IOEnv.TRACE)

VARIABLES l, lowfail, bad          \* lowfail: a tx of the current source failed to lower
vars == <<l, lowfail, bad>>
Flag(why, detail) == Append(bad, [line |-> l, why |-> why, detail |-> detail])

Init == l = 1 /\ lowfail = FALSE /\ bad = <<>>
Skip == Rec[l].ev \in {"Reset", "Source"} /\ lowfail' = FALSE /\ UNCHANGED bad

ParsedEv ==
    /\ Rec[l].ev = "Parsed" /\ UNCHANGED lowfail
    /\ LET e == Rec[l] IN
       bad' = IF e.outcome \notin ParseOutcomes
              THEN Flag("panic", [stage |-> "parse", outcome |-> e.outcome, site |-> e.site, msg |-> e.msg])
              ELSE IF e.outcome = "err" /\ ~e.dummy /\ ~ParseDiagOK(e)
                   THEN Flag("parse-span", [inside |-> e.end <= e.src_len, boundary |-> e.start_on_boundary /\ e.end_on_boundary])
              ELSE IF e.outcome = "err" /\ e.rendered # "ok" THEN Flag("render", [stage |-> "parse"])
              ELSE bad

AnalyzedEv ==
    /\ Rec[l].ev = "Analyzed" /\ UNCHANGED lowfail
    /\ LET e == Rec[l]
           wrong == {i \in DOMAIN e.errors : ~AnalyzeDiagOK(e.errors[i])}
       IN  bad' = IF e.outcome \notin AnalyzeOutcomes
                  THEN Flag("panic", [stage |-> "analyze", outcome |-> e.outcome, site |-> e.site, msg |-> e.msg])
                  ELSE IF wrong # {}
                       THEN LET d == e.errors[CHOOSE i \in wrong : TRUE]
                            IN  Flag("analyze-span", [kind |-> d.kind, inside |-> d.end <= d.input_len,
                                                      name_matches |-> d.located = d.name])
                  ELSE bad

LoweredEv ==
    /\ Rec[l].ev \in {"Lowered", "Workspace"}
    /\ lowfail' = (lowfail \/ (Rec[l].ev = "Lowered" /\ Rec[l].outcome # "ok"))
    /\ LET e == Rec[l] IN
       bad' = IF e.outcome \notin LowerOutcomes
              THEN Flag("panic", [stage |-> IF e.ev = "Lowered" THEN "lower" ELSE "workspace", outcome |-> e.outcome, site |-> e.site, msg |-> e.msg])
              ELSE IF e.ev = "Lowered" /\ ~LowerContract(e.n_errors, e.outcome)
                   THEN Flag("lower-contract", [kind |-> e.kind])
              \* the facade failing because a tx failed to lower is that failure, reported once
              ELSE IF e.ev = "Workspace" /\ e.n_errors = 0 /\ e.outcome # "ok" /\ ~lowfail
                   THEN Flag("workspace-contract", [kind |-> e.kind])
              ELSE bad

Next == /\ l <= Len(Rec)
        /\ l' = l + 1
        /\ (Skip \/ ParsedEv \/ AnalyzedEv \/ LoweredEv)

Done == l = Len(Rec) + 1
Report == Done => PrintT(<<"VERDICT", ToJson([n |-> Len(Rec), bad |-> bad])>>)
AllConsumed == TLCGet("stats").diameter = Len(Rec) + 1
=============================================================================
