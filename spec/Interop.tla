------------------------------- MODULE Interop -------------------------------
(***************************************************************************)
(* The service boundary (tx3_resolver::interop, trp::parse_resolve_request):   *)
(* which textual forms denote a value of each argument type, and how a request  *)
(* is assembled.                                                                *)
(*                                                                         *)
(* A form is how a value is written in JSON.  Admissible forms must be          *)
(* inverted exactly (from_json(form(v), type) = v); every other form must be    *)
(* rejected with an error.  Nothing may panic.                                  *)
(***************************************************************************)
EXTENDS BigInt, FiniteSets, Sequences

Types == {"Int", "Bool", "Bytes", "Address", "UtxoRef"}

\* forms that denote a value, per type; the JSON number form only reaches what a
\* 64-bit JSON number can carry
IntForms(v) == {"decimal_string", "hex16"} \cup (IF Ge(v, I64Min) /\ Le(v, U64Max) THEN {"number"} ELSE {})
BoolForms(b) == {"literal", "number01", "string"}
BytesForms == {"hex", "hex0x", "envelope_hex", "envelope_hex0x", "envelope_base64", "envelope_alias_keys"}
AddressForms == {"bech32", "hex", "hex0x"}
UtxoRefForms == {"txid_hash_index"}

Admissible(type, form, v) ==
    CASE type = "Int" -> form \in IntForms(v)
      [] type = "Bool" -> form \in BoolForms(v)
      [] type = "Bytes" -> form \in BytesForms
      [] type = "Address" -> form \in AddressForms
      \* (v is the output index: 32 bits in the IR and on chain; a wider one denotes no reference and must be refused)
      [] type = "UtxoRef" -> form \in UtxoRefForms /\ Ge(v, Zero) /\ Lt(v, Two32)
      [] OTHER -> FALSE

\* ill-formed shapes: each must be rejected whatever the target type
BadShapes == {"null", "float", "array", "nested_object", "odd_hex", "non_hex_text", "hex15", "hex17", "bad_base64",
              "envelope_unknown_encoding", "envelope_missing_content", "bool_for_int", "number_for_bytes", "number_2",
              "string_yes", "ref_without_hash", "ref_bad_index", "ref_odd_txid", "number_too_big", "empty_string",
              "text_a_euro", "text_euro", "text_emoji", "text_zero_e_acute", "text_0x_euro"}
\* ... except where the shape happens to be an admissible form of that type
ShapeIsBadFor(type, shape) ==
    CASE shape = "odd_hex" -> type \in {"Bytes", "Address", "Int", "UtxoRef", "Bool"}
      [] shape = "non_hex_text" -> TRUE
      [] shape \in {"hex15", "hex17"} -> type \in {"Int", "Bool", "UtxoRef"}      \* fine as Bytes / Address
      [] shape = "bad_base64" -> TRUE
      [] shape = "bool_for_int" -> type # "Bool"
      [] shape = "number_for_bytes" -> type \notin {"Int", "Bool"}                 \* 1 is a fine Int and Bool
      [] shape = "number_2" -> type # "Int"
      [] shape = "string_yes" -> TRUE
      [] shape = "ref_without_hash" -> type \notin {"Bytes", "Address"}          \* "abcd" is plain hex
      [] shape \in {"ref_bad_index", "ref_odd_txid"} -> TRUE
      [] shape = "number_too_big" -> TRUE
      [] shape = "empty_string" -> type \in {"Int", "Bool", "UtxoRef"}            \* "" is the empty byte string
      [] OTHER -> TRUE

\* ---- request assembly -------------------------------------------------------------
\* the template receives exactly the declared parameters the request supplies, under either map
ExpectedKeys(declared, argKeys, envKeys) == declared \cap (argKeys \cup envKeys)
EnvelopeOK(env) == env = "ok"
=============================================================================
