------------------------------- MODULE LangGen -------------------------------
(***************************************************************************)
(* Shared generator vocabulary for programs of the core fragment: the fixed   *)
(* declaration schema, syntax helpers, typed expression universes, the base   *)
(* transaction with its slots, and the environments.                          *)
(***************************************************************************)
EXTENDS Lang

CONSTANTS Depth

\* ---- declarations -------------------------------------------------------------
H1 == [i \in 1..28 |-> 17]       \* 0x1111..: policy Pol, asset Tok
H2 == [i \in 1..28 |-> 34]
KeyHash == [i \in 1..28 |-> 90 + (i % 5)]
Decls == [parties |-> <<[name |-> "Sender", key |-> "sender"], [name |-> "Receiver", key |-> "receiver"],
                        [name |-> "MyParty", key |-> "myparty"]>>,
          envs |-> <<[name |-> "e_int", key |-> "e_int", ty |-> "Int"]>>,
          policies |-> <<[name |-> "Pol", hash |-> H1]>>,
          assets |-> <<[name |-> "Tok", policy |-> H1, asset_name |-> <<97>>]>>,
          types |-> <<[name |-> "Rec", record |-> TRUE,
                       cases |-> <<[name |-> "Default", fields |-> <<[name |-> "f1", ty |-> "Int"], [name |-> "f2", ty |-> "Bytes"]>>]>>],
                      [name |-> "Var", record |-> FALSE,
                       cases |-> <<[name |-> "A", fields |-> <<[name |-> "x", ty |-> "Int"], [name |-> "y", ty |-> "Bytes"]>>],
                                   [name |-> "B", fields |-> <<>>],
                                   [name |-> "C", fields |-> <<[name |-> "z", ty |-> "Int"]>>],
                                   \* a later alternative with the shape of Rec: built from a value of another constructor
                                   [name |-> "D", fields |-> <<[name |-> "p", ty |-> "Int"], [name |-> "q", ty |-> "Bytes"]>>]>>]>>]
Params == <<[name |-> "n", key |-> "n", ty |-> "Int"], [name |-> "Mixed", key |-> "mixed", ty |-> "Int"],
            [name |-> "b", key |-> "b", ty |-> "Bytes"]>>

\* ---- syntax helpers -------------------------------------------------------------
Lit(i) == [k |-> "int", n |-> FromInt(i)]
Hex(bs) == [k |-> "hex", v |-> bs]
Str(bs) == [k |-> "str", v |-> bs]
Id(kind, name, key) == [k |-> "id", kind |-> kind, name |-> name, key |-> key]
PN == Id("param", "n", "n")
PM == Id("param", "Mixed", "mixed")
PB == Id("param", "b", "b")
EInt == Id("env", "e_int", "e_int")
L1 == Id("local", "l1", "l1")
Sender == Id("party", "Sender", "sender")
Receiver == Id("party", "Receiver", "receiver")
MyParty == Id("party", "MyParty", "myparty")
Pol == Id("policy", "Pol", "pol")
FeesE == Id("fees", "fees", "fees")
Source == Id("input", "source", "source")
Op(k, a, b) == [k |-> k, a |-> a, b |-> b]
U(k, a) == [k |-> k, a |-> a]
Paren(a) == U("paren", a)
AdaE(a) == U("ada", a)
TokE(a) == [k |-> "tok", name |-> "Tok", a |-> a]
AnyA(p, n, a) == [k |-> "anyasset", p |-> p, n |-> n, amt |-> a]
Prop(a, f) == [k |-> "prop", a |-> a, field |-> f]
CtorE(ty, case, fields, spread) == [k |-> "ctor", ty |-> ty, case |-> case, fields |-> fields, spread |-> spread]
F(n, e) == [name |-> n, e |-> e]
TipSlot == [k |-> "tip_slot"]

Int0 == {Lit(7), PN, PM, EInt, L1, TipSlot}
Int1 == Int0
        \cup {Op(o, a, b) : o \in {"add", "sub"}, a \in {PN, Lit(7)}, b \in {PM, Lit(2), L1}}
        \cup {U("neg", a) : a \in {PN, Lit(7)}}
        \cup {Op("sub", Op("sub", PN, PM), Lit(2)),              \* n - Mixed - 2 is (n - Mixed) - 2
              Op("sub", PN, Paren(Op("sub", PM, Lit(2)))),
              Op("sub", Paren(Op("sub", PN, PM)), Lit(2)),
              Op("add", PN, Op("sub", PM, Lit(2))),
              Op("sub", U("neg", PN), PM),
              U("neg", Paren(Op("sub", PN, PM))),
              U("slot_to_time", PN), U("slot_to_time", TipSlot), U("time_to_slot", U("slot_to_time", PN)),
              Op("add", TipSlot, PN)}
IntD == {Prop(Source, "f1"), Op("add", Prop(Source, "f1"), PN)}        \* only meaningful where a datum is read

Asset0 == {AdaE(PN), AdaE(Lit(7)), TokE(Lit(2)), FeesE, Source, AnyA(Hex(H2), Str(<<98>>), PN)}
Asset1 == Asset0
          \cup {Op("sub", Op("sub", Source, AdaE(PN)), FeesE),
                Op("sub", Source, Paren(Op("add", AdaE(PN), FeesE))),
                Op("sub", Op("sub", Op("sub", Source, AdaE(PN)), TokE(Lit(2))), FeesE),
                Op("add", AdaE(PN), TokE(Lit(2))), Op("add", TokE(Lit(2)), AdaE(PN)),
                Op("add", AdaE(PN), AdaE(PM)), Op("sub", AdaE(PN), AdaE(PM)),
                Op("add", AdaE(PN), AnyA(Hex(H2), Str(<<98>>), PM)),
                Op("sub", Op("add", AdaE(PN), TokE(Lit(2))), TokE(Lit(2))),
                AdaE(Op("add", PN, PM)), AdaE(L1), AdaE(Prop(Source, "f1")),
                AnyA(Pol, Str(<<98>>), Lit(1)), AnyA(Hex(H2), Hex(<<1, 2>>), PN),
                AnyA(Hex(H2), Prop(Source, "f2"), Prop(Source, "f1")),
                Op("sub", Op("sub", Source, FeesE), AdaE(PN)),
                Op("sub", Source, Op("add", FeesE, AdaE(PN))),
                \* chains of three terms whose running total of a class dips below zero and comes back (x - y + z, x < y < x + z),
                \* for lovelace and for a token next to lovelace: plain integer arithmetic, whatever the intermediate sign
                Op("add", Op("sub", AdaE(Lit(5)), AdaE(PN)), AdaE(Op("add", PN, Lit(2000000)))),
                Op("add", Op("sub", Op("add", AdaE(Lit(2000000)), TokE(Lit(5))), TokE(PN)), TokE(Op("add", PN, Lit(7)))),
                Op("add", Op("sub", Op("sub", AdaE(PN), AdaE(PN)), AdaE(PM)), AdaE(Op("add", PM, PN)))}
Mint1 == {TokE(Lit(3)), TokE(PN), AnyA(Hex(H2), Str(<<98>>), Lit(5)), Op("add", TokE(Lit(3)), AnyA(Hex(H2), Str(<<98>>), Lit(5))),
          AnyA(Pol, Str(<<99>>), PM), TokE(Op("sub", PN, PN))}

Bytes1 == {Hex(<<1, 2>>), PB, Op("concat", PB, Hex(<<1>>)), Op("concat", Hex(<<1>>), Hex(<<2>>))}
Str1 == {Str(<<104, 105>>), Op("concat", Str(<<104>>), Str(<<105>>)), Op("concat", Str(<<110>>), PN)}

RecAll == CtorE("Rec", "", <<F("f1", PN), F("f2", PB)>>, Absent)
Datum1 == {RecAll,
           CtorE("Rec", "", <<F("f2", PB), F("f1", L1)>>, Absent),              \* written out of declaration order
           CtorE("Rec", "", <<F("f1", PN)>>, Source),                          \* f2 from the spread
           CtorE("Rec", "", <<F("f2", Hex(<<9>>))>>, Source),                  \* f1 from the spread
           CtorE("Rec", "", <<>>, Source),
           CtorE("Var", "A", <<F("x", Op("sub", Op("sub", PN, PM), Lit(2))), F("y", Op("concat", PB, Hex(<<1>>)))>>, Absent),
           CtorE("Var", "B", <<>>, Absent),
           CtorE("Var", "C", <<F("z", Prop(Source, "f1"))>>, Absent),
           \* alternative 3 taking all / some of its fields from a value whose own constructor is 0
           CtorE("Var", "D", <<>>, Source),
           CtorE("Var", "D", <<F("q", Hex(<<9>>))>>, Source),
           CtorE("Var", "D", <<F("p", Prop(Source, "f1")), F("q", Prop(Source, "f2"))>>, Absent),
           CtorE("Var", "D", <<F("q", Prop(Source, "f2")), F("p", Op("add", Prop(Source, "f1"), Lit(1)))>>, Absent),
           [k |-> "unit"], Source, PN, PB, Prop(Source, "f2"),
           [k |-> "list", items |-> <<Lit(1), PN, Prop(Source, "f1")>>],
           [k |-> "list", items |-> <<>>],
           [k |-> "map", pairs |-> <<[a |-> Lit(1), b |-> PB], [a |-> Lit(2), b |-> Hex(<<7>>)]>>],
           \* a map is written as the list of its pairs: keys that turn out equal once the arguments are known (the same
           \* parameter twice, a parameter and the literal it is given, two sums) still make two pairs, in the order written
           [k |-> "map", pairs |-> <<[a |-> PN, b |-> Hex(<<1>>)], [a |-> PN, b |-> Hex(<<2>>)]>>],
           [k |-> "map", pairs |-> <<[a |-> Op("add", PN, Lit(1)), b |-> PB], [a |-> Lit(9), b |-> Hex(<<3>>)], [a |-> Op("add", Lit(1), PN), b |-> Hex(<<4>>)]>>],
           [k |-> "bool", flag |-> TRUE], [k |-> "bool", flag |-> FALSE],
           [k |-> "index", a |-> [k |-> "list", items |-> <<Lit(5), PN>>], i |-> Lit(1)]}
DatumNoSrc == {RecAll, CtorE("Rec", "", <<F("f2", PB), F("f1", L1)>>, Absent),
               CtorE("Var", "A", <<F("x", Op("sub", Op("sub", PN, PM), Lit(2))), F("y", Op("concat", PB, Hex(<<1>>)))>>, Absent),
               CtorE("Var", "B", <<>>, Absent), [k |-> "unit"], PN, PB,
               [k |-> "list", items |-> <<Lit(1), PN>>], [k |-> "map", pairs |-> <<[a |-> Lit(1), b |-> PB]>>],
               [k |-> "bool", flag |-> TRUE]}
Addr1 == {Sender, Receiver, MyParty, Pol}
Signer1 == {Sender, MyParty, Hex(KeyHash)}
RefTo(t, ix) == [k |-> "utxo_ref", txid |-> [i \in 1..32 |-> t], index |-> ix]
RefNames == <<"rfa", "rfb", "rfc">>
RefWide(t, ix) == [k |-> "utxo_ref_wide", txid |-> [i \in 1..32 |-> t], index |-> ix]    \* output index 2^32 + ix
Ref1 == {[k |-> "utxo_ref", txid |-> [i \in 1..32 |-> 7], index |-> 2], RefWide(7, 2), RefWide(7, 0)}

\* ---- chain-specific blocks --------------------------------------------------------
PlutusScriptBytes == <<81, 1, 1, 0, 35, 37, 152, 0, 165, 24, 164, 209, 54, 86, 64, 4, 174, 105>>     \* 0x5101010023259800a518a4d136564004ae69
NativeScriptBytes == <<130, 1, 129, 130, 4, 0>>                                                     \* 0x820181820400: all [ after slot 0 ]
StakeKeyAddr == <<224>> \o [i \in 1..28 |-> 7]
StakeScriptAddr == <<240>> \o [i \in 1..28 |-> 8]
BaseAddr == <<0>> \o [i \in 1..28 |-> 81] \o [i \in 1..28 |-> 9]
BaseScriptStakeAddr == <<32>> \o [i \in 1..28 |-> 81] \o [i \in 1..28 |-> 10]
DRepHash == [i \in 1..28 |-> 51]
Donation(e) == [k |-> "donation", coin |-> e]
PlutusW(v, scr) == [k |-> "plutus_witness", version |-> v, script |-> scr]
NativeW(scr) == [k |-> "native_witness", script |-> scr]
Publish(to, amount, datum, version, script) == [k |-> "publish", to |-> to, amount |-> amount, datum |-> datum, version |-> version, script |-> script]
VoteDeleg(drep, stake) == [k |-> "vote_deleg", drep |-> drep, stake |-> stake]
Witness1 == {PlutusW(Lit(v), Hex(PlutusScriptBytes)) : v \in {1, 2, 3}} \cup {PlutusW(PM, Hex(PlutusScriptBytes)), PlutusW(Lit(3), PB),
             NativeW(Hex(NativeScriptBytes))}
Publish1 == {Publish(to, amt, dat, ver, scr) :
                to \in {Receiver, Pol}, amt \in {AdaE(PN), Op("add", AdaE(PN), TokE(Lit(2)))}, dat \in {Absent, RecAll},
                ver \in {Absent, Lit(3), Lit(2), PM}, scr \in {Absent, Hex(PlutusScriptBytes)}}
            \cup {Publish(Receiver, AdaE(PN), Absent, Lit(0), Hex(NativeScriptBytes)), Publish(Receiver, AdaE(PN), Absent, Lit(1), PB)}
VoteDeleg1 == {VoteDeleg(Hex(DRepHash), Hex(a)) : a \in {StakeKeyAddr, StakeScriptAddr, BaseAddr, BaseScriptStakeAddr}}
              \cup {VoteDeleg(Hex(DRepHash), Sender), VoteDeleg(PB, Hex(StakeKeyAddr)), VoteDeleg(Hex(<<1, 2, 3>>), Hex(StakeKeyAddr))}

\* ---- the base transaction and its slots ------------------------------------------
Inp(name, many, from, min, ref, red, dis) ==
    [name |-> name, key |-> name, many |-> many, from |-> from, min_amount |-> min, ref |-> ref, redeemer |-> red, datum_is |-> dis]
Out(name, opt, to, amount, datum) == [name |-> name, optional |-> opt, to |-> to, amount |-> amount, datum |-> datum]
BaseInput == Inp("source", FALSE, Sender, AdaE(PN), Absent, Absent, "Rec")
BaseTx == [params |-> Params,
           locals |-> <<[name |-> "l1", e |-> Op("add", PN, Lit(1))]>>,
           inputs |-> <<BaseInput>>,
           outputs |-> <<Out("", FALSE, Receiver, AdaE(PN), Absent)>>,
           mints |-> <<>>, burns |-> <<>>, validity |-> Absent, signers |-> Absent, metadata |-> Absent,
           references |-> <<>>, collateral |-> Absent, withdrawals |-> <<>>, cardano |-> <<>>]

\* base for the boundary slots: nothing but the varied slot depends on n
BaseB == [BaseTx EXCEPT !.inputs = <<[BaseInput EXCEPT !.min_amount = AdaE(Lit(1))]>>,
                        !.outputs = <<Out("", FALSE, Receiver, AdaE(Lit(2000000)), Absent)>>]

SlotUniverse(s) ==
    CASE s \in {"out_amount", "second_out", "optional_out", "local_amount"} -> IF Depth = 0 THEN Asset0 ELSE Asset1
      \* the analyzer only admits integer literals and Int-typed names as metadata labels
      [] s = "meta_key" -> {Lit(7), Lit(674), PN, PM}
      [] s \in {"since", "until"} -> (IF Depth = 0 THEN Int0 ELSE Int1) \ {U("neg", PN), U("neg", Lit(7)), Op("sub", U("neg", PN), PM), U("neg", Paren(Op("sub", PN, PM)))}
      [] s \in {"out_datum", "mint_redeemer"} -> Datum1 \cup {CtorE("Var", "C", <<F("z", e)>>, Absent) : e \in (IF Depth = 0 THEN {} ELSE Int1 \cup IntD)}
      \* the redeemer of `source` itself: expressions that do not read `source` (a block reading its own datum is a corner the generator leaves out)
      [] s = "input_redeemer" -> DatumNoSrc \cup {CtorE("Var", "C", <<F("z", e)>>, Absent) : e \in (IF Depth = 0 THEN {} ELSE Int1)}
      [] s = "out_to" -> Addr1
      [] s = "signer" -> Signer1
      [] s \in {"mint_amount", "burn_amount"} -> Mint1
      [] s = "meta_value" -> Bytes1 \cup Str1 \cup (IF Depth = 0 THEN Int0 ELSE Int1)
      [] s = "reference" -> Ref1
      [] s = "min_amount" -> {AdaE(PN), Op("add", AdaE(PN), FeesE), Op("add", AdaE(PN), TokE(Lit(1))), TokE(Lit(2))}
      \* two (three) reference blocks: outputs of one transaction, of two transactions, the same output twice
      [] s = "two_references" -> {<<RefTo(7, 2), RefTo(7, 3)>>, <<RefTo(7, 3), RefTo(7, 2)>>, <<RefTo(7, 2), RefTo(8, 2)>>, <<RefTo(7, 2), RefTo(7, 2)>>,
                                 <<RefTo(7, 0), RefTo(7, 1), RefTo(8, 0)>>, <<RefWide(7, 1), RefTo(7, 1)>>, <<RefTo(9, 5), RefTo(7, 5), RefTo(9, 4)>>}
      \* ---- chain-specific blocks: the slot value is the block (or, for a donation, its coin expression)
      \* (the analyzer type-checks the coin and infers no type for env names, locals and built-in calls: left out, as for metadata labels)
      [] s = "donation" -> {Lit(7), PN, PM} \cup {Op(o, a, b) : o \in {"add", "sub"}, a \in {PN, Lit(7)}, b \in {PM, Lit(2)}}
                           \cup {Op("sub", Op("sub", PN, PM), Lit(2)), Op("sub", PN, Paren(Op("sub", PM, Lit(2)))), Op("add", PN, Op("sub", PM, Lit(2)))}
      [] s = "witness" -> Witness1
      [] s = "two_witnesses" -> {<<a, b>> : a \in Witness1, b \in {PlutusW(Lit(3), Hex(<<81, 1, 1, 0>>)), NativeW(Hex(NativeScriptBytes)), PlutusW(Lit(2), Hex(PlutusScriptBytes))}}
      [] s = "publish" -> Publish1
      [] s = "vote_deleg" -> VoteDeleg1
      [] s = "b_donation" -> {PN, Op("add", PN, PM), Op("sub", PN, PM), U("neg", PN)}
      [] s = "b_publish" -> {AdaE(PN), Op("sub", AdaE(PN), AdaE(PM)), TokE(PN), Op("add", AdaE(Lit(1000000)), TokE(PN))}
      [] s = "mint_burn" -> {TokE(Lit(3)), TokE(PN), AnyA(Hex(H2), Str(<<98>>), Lit(5))}
      \* ---- C02: every numeric ledger field x the expression shapes that produce it
      [] s = "b_out_amount" -> {AdaE(PN), Op("add", AdaE(PN), AdaE(PM)), Op("sub", AdaE(PN), AdaE(PM)), AdaE(Op("add", PN, PM)),
                                AdaE(U("neg", PN)), U("neg", AdaE(PN)), TokE(PN), Op("add", AdaE(Lit(1000000)), TokE(PN)),
                                Op("add", AdaE(Lit(1000000)), AnyA(Hex(H2), Str(<<98>>), Op("sub", PN, PM))),
                                Op("sub", Op("sub", Source, AdaE(PN)), FeesE), Op("sub", Source, TokE(PN)),
                                \* a running total that dips below zero and comes back: the exact value is what counts
                                Op("add", Op("sub", AdaE(Lit(1000000)), AdaE(PN)), AdaE(PN)),
                                Op("add", Op("sub", Op("add", AdaE(Lit(2000000)), TokE(Lit(5))), TokE(PN)), TokE(PN)),
                                Op("add", Op("sub", Op("sub", Source, AdaE(PN)), FeesE), AdaE(PN)),
                                Op("add", Op("sub", Source, TokE(PN)), TokE(Op("sub", PN, PM))),
                                \* an intermediate result that cancels out completely, and what is subtracted from it
                                Op("add", Op("sub", Op("sub", AdaE(PN), AdaE(PN)), TokE(Lit(3))), Op("add", TokE(Lit(10)), AdaE(Lit(1500000)))),
                                Op("add", Op("sub", Op("sub", TokE(PN), TokE(PN)), AdaE(Lit(1000000))), AdaE(Lit(3000000))),
                                Op("add", Op("sub", Op("sub", Source, Source), TokE(Lit(3))), Op("add", TokE(Lit(10)), AdaE(Lit(1500000))))}
      \* an optional output: kept whenever its value holds anything at all (tokens without lovelace included)
      [] s = "b_optional_out" -> {AdaE(PN), TokE(PN), Op("add", AdaE(PM), TokE(PN)), Op("sub", Op("add", AdaE(PN), TokE(Lit(4))), AdaE(PN)),
                                  Op("sub", Op("sub", Source, AdaE(Lit(5000000))), TokE(PM)), AnyA(Hex(H2), Str(<<98>>), PN),
                                  Op("sub", AdaE(PN), AdaE(PN))}
      [] s \in {"b_mint", "b_burn"} -> {TokE(PN), TokE(Op("sub", PN, PM)), TokE(Op("add", PN, PM)), AnyA(Hex(H2), Str(<<98>>), U("neg", PN))}
      \* the mint field aggregates blocks: two mints of one asset, a mint and a burn of it, the same over two assets of a policy
      [] s \in {"b_mint2", "b_mint_burn", "b_burn2", "b_mint3"} -> {TokE(PN), Op("add", TokE(PN), AnyA(Hex(H1), Str(<<98>>), PN)), AnyA(Hex(H2), Str(<<98>>), PN)}
      [] s \in {"b_since", "b_until"} -> {PN, Op("add", PN, PM), Op("sub", PN, PM), U("neg", PN)}
      [] s = "b_meta_value" -> {PN, Op("add", PN, PM), U("neg", PN)}
      [] s = "b_meta_key" -> {PN}
      [] s \in {"b_datum", "b_redeemer"} -> {CtorE("Var", "C", <<F("z", e)>>, Absent) : e \in {PN, Op("add", PN, PM), Op("sub", PN, PM), U("neg", PN)}}
                                              \cup {[k |-> "list", items |-> <<PN, U("neg", PN)>>]}
      [] s = "b_index" -> {[k |-> "index", a |-> [k |-> "list", items |-> <<Lit(5), Lit(6)>>], i |-> PN]}
      [] s = "b_balanced" -> {Op("sub", Op("sub", Source, AdaE(PN)), FeesE),                 \* plain transfer
                              Op("sub", Op("add", Op("sub", Source, AdaE(PN)), TokE(Lit(3))), FeesE),   \* keeps what it mints
                              Op("sub", Op("sub", Op("sub", Source, AdaE(PN)), TokE(Lit(2))), FeesE)}   \* burns 2

\* the asset expression of the (first) class of e with amount x
SameClassAs(e, x) == IF e.k = "anyasset" THEN [e EXCEPT !.amt = x] ELSE TokE(x)

WithSlot(s, e) ==
    CASE s = "out_amount" -> [BaseTx EXCEPT !.outputs = <<Out("", FALSE, Receiver, e, Absent)>>]
      [] s = "second_out" -> [BaseTx EXCEPT !.outputs = Append(@, Out("change", FALSE, Sender, e, Absent))]
      [] s = "optional_out" -> [BaseTx EXCEPT !.outputs = <<Out("maybe", TRUE, Sender, e, Absent), Out("", FALSE, Receiver, AdaE(PN), Absent)>>]
      [] s = "local_amount" -> [BaseTx EXCEPT !.locals = Append(@, [name |-> "amt", e |-> e]),
                                             !.outputs = <<Out("", FALSE, Receiver, Id("local", "amt", "amt"), Absent)>>]
      [] s = "out_datum" -> [BaseTx EXCEPT !.outputs = <<Out("named", FALSE, Receiver, AdaE(PN), e)>>]
      [] s = "out_to" -> [BaseTx EXCEPT !.outputs = <<Out("", FALSE, e, AdaE(PN), Absent)>>]
      [] s = "since" -> [BaseTx EXCEPT !.validity = [k |-> "some", since |-> e, until |-> Absent]]
      [] s = "until" -> [BaseTx EXCEPT !.validity = [k |-> "some", since |-> TipSlot, until |-> e]]
      [] s = "mint_amount" -> [BaseTx EXCEPT !.mints = <<[amount |-> e, redeemer |-> Absent]>>]
      [] s = "burn_amount" -> [BaseTx EXCEPT !.burns = <<[amount |-> e, redeemer |-> [k |-> "unit"]]>>]
      [] s = "mint_burn" -> [BaseTx EXCEPT !.mints = <<[amount |-> TokE(Lit(3)), redeemer |-> Absent], [amount |-> e, redeemer |-> Absent]>>,
                                           !.burns = <<[amount |-> e, redeemer |-> Absent]>>]
      [] s = "mint_redeemer" -> [BaseTx EXCEPT !.mints = <<[amount |-> TokE(Lit(3)), redeemer |-> e]>>]
      [] s = "input_redeemer" -> [BaseTx EXCEPT !.inputs = <<[BaseInput EXCEPT !.redeemer = e]>>]
      [] s = "signer" -> [BaseTx EXCEPT !.signers = [k |-> "some", items |-> <<e, Hex(KeyHash)>>]]
      [] s = "meta_value" -> [BaseTx EXCEPT !.metadata = [k |-> "some", items |-> <<[key |-> Lit(1), value |-> e], [key |-> Lit(674), value |-> Str(<<120>>)]>>]]
      [] s = "meta_key" -> [BaseTx EXCEPT !.metadata = [k |-> "some", items |-> <<[key |-> e, value |-> Hex(<<1>>)]>>]]
      [] s = "reference" -> [BaseTx EXCEPT !.references = <<[name |-> "rf", ref |-> e]>>]
      [] s = "two_references" -> [BaseTx EXCEPT !.references = [i \in DOMAIN e |-> [name |-> RefNames[i], ref |-> e[i]]]]
      [] s = "b_out_amount" -> [BaseB EXCEPT !.outputs = <<Out("", FALSE, Receiver, e, Absent)>>]
      [] s = "b_optional_out" -> [BaseB EXCEPT !.outputs = <<Out("maybe", TRUE, Receiver, e, Absent)>>]
      [] s = "b_mint" -> [BaseB EXCEPT !.mints = <<[amount |-> e, redeemer |-> Absent]>>]
      [] s = "b_burn" -> [BaseB EXCEPT !.burns = <<[amount |-> e, redeemer |-> Absent]>>]
      [] s = "b_mint2" -> [BaseB EXCEPT !.mints = <<[amount |-> e, redeemer |-> Absent], [amount |-> SameClassAs(e, PM), redeemer |-> Absent]>>]
      [] s = "b_burn2" -> [BaseB EXCEPT !.burns = <<[amount |-> e, redeemer |-> Absent], [amount |-> SameClassAs(e, PM), redeemer |-> Absent]>>]
      \* two mints of n and a burn of n + Mixed: the partial sum 2n may leave the field although the net n - Mixed fits
      [] s = "b_mint3" -> [BaseB EXCEPT !.mints = <<[amount |-> e, redeemer |-> Absent], [amount |-> e, redeemer |-> Absent]>>,
                                        !.burns = <<[amount |-> SameClassAs(e, Op("add", PN, PM)), redeemer |-> Absent]>>]
      [] s = "b_mint_burn" -> [BaseB EXCEPT !.mints = <<[amount |-> e, redeemer |-> Absent]>>,
                                            !.burns = <<[amount |-> SameClassAs(e, PM), redeemer |-> Absent]>>]
      [] s = "b_since" -> [BaseB EXCEPT !.validity = [k |-> "some", since |-> e, until |-> Absent]]
      [] s = "b_until" -> [BaseB EXCEPT !.validity = [k |-> "some", since |-> Absent, until |-> e]]
      [] s = "b_meta_value" -> [BaseB EXCEPT !.metadata = [k |-> "some", items |-> <<[key |-> Lit(1), value |-> e]>>]]
      [] s = "b_meta_key" -> [BaseB EXCEPT !.metadata = [k |-> "some", items |-> <<[key |-> e, value |-> Hex(<<1>>)]>>]]
      [] s = "b_datum" -> [BaseB EXCEPT !.outputs = <<Out("named", FALSE, Receiver, AdaE(Lit(2000000)), e)>>]
      [] s = "b_redeemer" -> [BaseB EXCEPT !.mints = <<[amount |-> TokE(Lit(3)), redeemer |-> e]>>]
      [] s = "b_index" -> [BaseB EXCEPT !.metadata = [k |-> "some", items |-> <<[key |-> Lit(1), value |-> e]>>]]
      [] s = "b_balanced" ->
            [BaseTx EXCEPT !.outputs = <<Out("", FALSE, Receiver, AdaE(PN), Absent), Out("change", FALSE, Sender, e, Absent)>>,
                           !.mints = IF e = Op("sub", Op("add", Op("sub", Source, AdaE(PN)), TokE(Lit(3))), FeesE)
                                     THEN <<[amount |-> TokE(Lit(3)), redeemer |-> Absent]>> ELSE <<>>,
                           !.burns = IF e = Op("sub", Op("sub", Op("sub", Source, AdaE(PN)), TokE(Lit(2))), FeesE)
                                     THEN <<[amount |-> TokE(Lit(2)), redeemer |-> Absent]>> ELSE <<>>]
      [] s = "donation" -> [BaseTx EXCEPT !.cardano = <<Donation(e)>>]
      [] s = "witness" -> [BaseTx EXCEPT !.cardano = <<e>>, !.mints = <<[amount |-> TokE(Lit(3)), redeemer |-> [k |-> "unit"]]>>]
      [] s = "two_witnesses" -> [BaseTx EXCEPT !.cardano = e]
      [] s = "publish" -> [BaseTx EXCEPT !.cardano = <<e, Publish(Sender, AdaE(Lit(1500000)), Absent, Absent, Absent)>>]
      [] s = "vote_deleg" -> [BaseTx EXCEPT !.cardano = <<e>>]
      [] s = "b_donation" -> [BaseB EXCEPT !.cardano = <<Donation(e)>>]
      [] s = "b_publish" -> [BaseB EXCEPT !.cardano = <<Publish(Receiver, e, Absent, Absent, Absent)>>]
      [] s = "min_amount" -> [BaseTx EXCEPT !.inputs = <<[BaseInput EXCEPT !.min_amount = e]>>,
                                            !.collateral = [k |-> "some", from |-> Sender, min_amount |-> AdaE(Lit(5)), ref |-> Absent]]

\* ---- environments -----------------------------------------------------------------
AddrOf(b) == [k |-> "address", v |-> <<96>> \o [i \in 1..28 |-> b]]
Utxo(t, ix, addrByte, lovelace, tok, datum) ==
    [ref |-> [txid |-> [i \in 1..32 |-> t], index |-> ix], address |-> <<96>> \o [i \in 1..28 |-> addrByte],
     assets |-> <<[c |-> Naked, n |-> FromInt(lovelace)]>> \o (IF tok > 0 THEN <<[c |-> Defined(H1, <<97>>), n |-> FromInt(tok)]>> ELSE <<>>),
     datum |-> datum]
RecDatum == [k |-> "struct", ctor |-> 0, fields |-> <<Num(FromInt(11)), [k |-> "bytes", v |-> <<5, 6>>]>>]
\* boundary values for C02: id = 100 * (1: Mixed = 1, 2: Mixed = -1, 3: Mixed = 0) + index into Bounds
Bounds == <<Zero, One, Neg(One), Two32, Neg(Two32), FromInt(2147483647), I64Max, Two63, I64Min, Sub(I64Min, One),
            U64Max, Two64, Neg(Two64), Sub(Neg(Two64), One), I128Max, I128Min, Sub(I128Max, One), FromInt(5000000)>>
EnvOf(id) ==
    LET n == IF id >= 100 THEN Bounds[id % 100]
             ELSE FromInt(IF id = 1 THEN 3000000 ELSE IF id = 2 THEN 7 ELSE 1000000)
        m == IF id >= 300 THEN 0 ELSE IF id >= 200 THEN -1 ELSE IF id >= 100 THEN 1
             ELSE IF id = 1 THEN 2 ELSE IF id = 2 THEN 1 ELSE 0
    IN  [args |-> [n |-> Num(n), mixed |-> Num(FromInt(m)), b |-> [k |-> "bytes", v |-> <<9>>],
                   e_int |-> Num(FromInt(5)), sender |-> AddrOf(81), receiver |-> AddrOf(82), myparty |-> AddrOf(83)],
         utxos |-> [source |-> <<Utxo(IF id = 2 THEN 200 ELSE 1, 0, 81, 50000000, 7, RecDatum)>>,
                    collateral |-> <<Utxo(2, 1, 81, 9000000, 0, None)>>],
         fee |-> FromInt(IF id = 2 THEN 0 ELSE 170000),
         cfg |-> [slot |-> FromInt(IF id = 2 THEN 5 ELSE 1000), ts |-> FromInt(1700000), network |-> (IF id = 2 THEN 1 ELSE 0), cpb |-> 4310,
                  mem |-> [k |-> "none"]]]

=============================================================================
