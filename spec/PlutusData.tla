------------------------------ MODULE PlutusData ------------------------------
(***************************************************************************)
(* The Plutus Data convention (C09): how a value of the language is laid out  *)
(* as a Plutus Data tree, and which CBOR framing a standard encoder uses.     *)
(* A tree is  [k |-> "constr", ix, fields] | [k |-> "int", n] |               *)
(* [k |-> "bytes", v] | [k |-> "list", items] | [k |-> "map", pairs].          *)
(***************************************************************************)
EXTENDS Tir

PConstr(ix, fields) == [k |-> "constr", ix |-> ix, fields |-> fields]
PInt(n) == [k |-> "int", n |-> n]
PBytes(b) == [k |-> "bytes", v |-> b]
PUnit == PConstr(0, <<>>)

RECURSIVE Enc(_)
Enc(v) ==
    CASE v.k = "number" -> PInt(v.num)
      [] v.k \in {"bytes", "string", "address", "hash"} -> PBytes(v.v)
      [] v.k = "bool" -> PConstr(IF v.flag THEN 1 ELSE 0, <<>>)
      [] v.k = "none" -> PUnit
      [] v.k = "struct" -> PConstr(v.ctor, FlatMap(LAMBDA x : <<Enc(x)>>, v.fields))
      [] v.k = "list" -> [k |-> "list", items |-> FlatMap(LAMBDA x : <<Enc(x)>>, v.items)]
      [] v.k = "map" -> [k |-> "map", pairs |-> FlatMap(LAMBDA p : <<[a |-> Enc(p.a), b |-> Enc(p.b)]>>, v.pairs)]
      [] OTHER -> [k |-> "unencodable", tag |-> v.k]

\* the tag a constructor alternative is written with
ConstrTag(ix) == IF ix <= 6 THEN 121 + ix ELSE IF ix <= 127 THEN 1280 + (ix - 7) ELSE 102
ConstrForm(ix) == IF ix <= 127 THEN "compact" ELSE "general"
\* integers that fit 64 bits in magnitude are CBOR integers, larger ones are bignums
IntForm(n) == IF Ge(n, Neg(Two64)) /\ Lt(n, Two64) THEN "int" ELSE "bignum"

\* an observed tree (from the independent reader) without its framing annotations
RECURSIVE Strip(_)
Strip(t) ==
    CASE t.k = "constr" -> PConstr(t.ix, FlatMap(LAMBDA x : <<Strip(x)>>, t.fields))
      [] t.k = "int" -> PInt(t.n)
      [] t.k = "bytes" -> PBytes(t.v)
      [] t.k = "list" -> [k |-> "list", items |-> FlatMap(LAMBDA x : <<Strip(x)>>, t.items)]
      [] t.k = "map" -> [k |-> "map", pairs |-> FlatMap(LAMBDA p : <<[a |-> Strip(p.a), b |-> Strip(p.b)]>>, t.pairs)]
      [] OTHER -> [k |-> "invalid"]

\* every node of an observed tree uses the standard framing
RECURSIVE FramingOK(_)
FramingOK(t) ==
    CASE t.k = "constr" -> t.form = ConstrForm(t.ix) /\ \A i \in DOMAIN t.fields : FramingOK(t.fields[i])
      [] t.k = "int" -> t.form = IntForm(t.n) /\ t.minimal
      [] t.k = "bytes" -> TRUE
      [] t.k = "list" -> \A i \in DOMAIN t.items : FramingOK(t.items[i])
      [] t.k = "map" -> \A i \in DOMAIN t.pairs : FramingOK(t.pairs[i].a) /\ FramingOK(t.pairs[i].b)
      [] OTHER -> FALSE
=============================================================================
