-------------------------------- MODULE Wire --------------------------------
(***************************************************************************)
(* The TIR wire format (tx3_tir::encoding) at the level the property talks   *)
(* about: encoding is injective up to meaning, decoding is gated by the       *)
(* declared version, and decoding anything else is an error -- never a crash. *)
(***************************************************************************)
EXTENDS Tir

CurrentVersion == "v1beta0"
RetiredVersions == {"v1alpha8"}

\* bytes are opaque to the specification: an encoding is the term it carries
Encode(t) == [enc |-> t]
Garbage == [enc |-> None, garbage |-> TRUE]
IsGarbage(b) == "garbage" \in DOMAIN b

GateOutcome(version) ==
    IF version = CurrentVersion THEN "ok"
    ELSE IF version \in RetiredVersions THEN "deprecated"
    ELSE "unknown"

Decode(b, version) ==
    IF GateOutcome(version) # "ok" THEN [outcome |-> GateOutcome(version)]
    ELSE IF IsGarbage(b) THEN [outcome |-> "err"]
    ELSE [outcome |-> "ok", term |-> b.enc]

\* outcomes a decoder may have on bytes that are not a valid encoding
GarbageOutcomes == {"ok", "err"}
=============================================================================
