------------------------------- MODULE Staging -------------------------------
(***************************************************************************)
(* The staged-application machine over a template (C06, C07).                *)
(*                                                                         *)
(* A template is closed by four stages -- ApplyArgs, ApplyInputs, ApplyFees,  *)
(* ApplyCompilerOps -- each taken exactly once, in any order in which the     *)
(* operands of the compiler-evaluated built-ins are available, with a         *)
(* ReduceStep allowed between any two stages (and one at the end).            *)
(* The meaning of the result does not depend on the path: it is               *)
(* EvalTx(template, env).                                                     *)
(***************************************************************************)
EXTENDS Tir

Stages == {"args", "inputs", "fees", "cops"}

\* which stages must have happened before the compiler ops can be evaluated:
\* the kinds of unresolved nodes sitting inside an operand of a compiler op
RECURSIVE CopDeps(_, _)
KindOf(e) == IF e.k = "p_value" THEN {"args"} ELSE IF e.k = "p_input" THEN {"inputs"}
             ELSE IF e.k = "p_fees" THEN {"fees"} ELSE {}
CopDeps(e, inside) ==
    (IF inside THEN KindOf(e) ELSE {})
    \cup UNION {CopDeps(c, inside \/ e.k \in CompilerTags) : c \in Range(Kids(e))}
\* a query nested in an operand disappears with its input, so its own parameters do not count
RECURSIVE CopDepsQ(_, _)
CopDepsQ(e, inside) ==
    (IF inside THEN KindOf(e) ELSE {})
    \cup (IF e.k = "p_input" THEN {}
          ELSE UNION {CopDepsQ(c, inside \/ e.k \in CompilerTags) : c \in Range(Kids(e))})
TxCopDeps(t) == UNION {CopDepsQ(c, FALSE) : c \in Range(TxKids(t))}

\* A schedule is a sequence of steps in Stages \cup {"reduce"}.
StagesOf(s) == {s[i] : i \in DOMAIN s} \ {"reduce"}
ValidSchedule(t, s) ==
    /\ \A st \in Stages : Cardinality({i \in DOMAIN s : s[i] = st}) = 1
    /\ \A i \in DOMAIN s : s[i] \in Stages \cup {"reduce"}
    /\ Len(s) > 0 /\ s[Len(s)] = "reduce"
    /\ \A i \in DOMAIN s : (s[i] = "reduce" /\ i > 1) => s[i-1] # "reduce"
    /\ \A i \in DOMAIN s : s[i] = "cops" =>
          TxCopDeps(t) \subseteq {s[j] : j \in 1..(i-1)}
=============================================================================
