--------------------------------- MODULE Lang ---------------------------------
(***************************************************************************)
(* The core of the tx3 language and what a transaction template DENOTES.      *)
(*                                                                         *)
(* A program P = [decls, tx] is the generator's own syntax tree (not the       *)
(* parser's AST, not the IR): declarations (parties, env, policies, assets,    *)
(* types) and one transaction with its blocks.  DenoteTx(P, env) is a big-step *)
(* semantics written directly over that tree: the abstract Cardano transaction *)
(* the template means under ordinary integer and multi-asset arithmetic, for   *)
(* env = [args, utxos, fee, cfg].  It never goes through lowering, reduction   *)
(* or compilation, so those are checked against it rather than trusted.        *)
(*                                                                         *)
(* Contexts: an input name denotes the sum of its UTxOs' assets in "asset"      *)
(* context and the datum of its single UTxO in "datum" context; a policy name   *)
(* denotes its script address in "address" context and its hash elsewhere.      *)
(***************************************************************************)
EXTENDS Ledger

Absent == [k |-> "absent"]
IsAbsent(x) == x.k = "absent"
Has(seq, name) == \E i \in DOMAIN seq : seq[i].name = name
IndexIn(seq, name) == CHOOSE i \in DOMAIN seq : seq[i].name = name
Lookup(seq, name) == seq[IndexIn(seq, name)]

UtxosOf(env, key) == Norm([k |-> "utxo_set", utxos |-> env.utxos[key]])

RECURSIVE D(_, _, _, _)
DSeq(es, ctx, P, env) == FlatMap(LAMBDA x : <<D(x, ctx, P, env)>>, es)

Ident(e, ctx, P, env) ==
    CASE e.kind \in {"param", "env", "party"} ->
            IF e.key \in DOMAIN env.args THEN Norm(env.args[e.key]) ELSE Err("missing arg")
      [] e.kind = "local" -> D(Lookup(P.tx.locals, e.name).e, ctx, P, env)
      [] e.kind = "input" ->
            IF e.key \notin DOMAIN env.utxos THEN Err("missing input")
            ELSE IF ctx = "asset" THEN IntoAssets(UtxosOf(env, e.key))
            ELSE IF ctx = "datum" THEN IntoDatum(UtxosOf(env, e.key))
            ELSE Unspec
      [] e.kind = "policy" ->
            LET pol == Lookup(P.decls.policies, e.name)
            IN  IF ctx = "address" THEN ScriptAddress([k |-> "hash", v |-> pol.hash], env.cfg)
                ELSE [k |-> "bytes", v |-> pol.hash]
      [] e.kind = "fees" -> AssetVal(Single(Naked, env.fee))
      [] OTHER -> Unspec

\* field position (0-based) of `field` in the record type an input's datum is declared to be
FieldPos(P, inputName, field) ==
    LET inp == Lookup(P.tx.inputs, inputName)
        ty == Lookup(P.decls.types, inp.datum_is)
    IN  IndexIn(ty.cases[1].fields, field) - 1

Ctor(e, ctx, P, env) ==
    LET ty == Lookup(P.decls.types, e.ty)
        ci == IF ty.record THEN 1 ELSE IndexIn(ty.cases, e.case)
        decl == ty.cases[ci].fields
        spread == IF IsAbsent(e.spread) THEN Err("missing field") ELSE D(e.spread, ctx, P, env)
        FieldVal(j) == IF Has(e.fields, decl[j].name) THEN D(Lookup(e.fields, decl[j].name).e, ctx, P, env)
                       ELSE IF Bad(spread) THEN spread
                       ELSE ValIndex(spread, Num(FromInt(j - 1)))
        RECURSIVE Go(_)
        Go(j) == IF j > Len(decl) THEN <<>> ELSE <<FieldVal(j)>> \o Go(j + 1)
        vals == Go(1)
    IN  Guard(vals, [k |-> "struct", ctor |-> ci - 1, fields |-> vals])

AssetOf(cls, a) == IF a.k = "number" THEN AssetVal(Single(cls, a.num)) ELSE Err("asset amount")

D(e, ctx, P, env) ==
    CASE e.k = "int" -> Num(e.n)
      [] e.k = "hex" -> [k |-> "bytes", v |-> e.v]
      [] e.k = "str" -> [k |-> "string", v |-> e.v]
      [] e.k = "bool" -> [k |-> "bool", flag |-> e.flag]
      [] e.k = "unit" -> [k |-> "struct", ctor |-> 0, fields |-> <<>>]
      [] e.k = "id" -> Ident(e, ctx, P, env)
      [] e.k = "paren" -> D(e.a, ctx, P, env)
      [] e.k = "add" -> LET a == D(e.a, ctx, P, env) b == D(e.b, ctx, P, env) IN Guard(<<a, b>>, ValAdd(a, b))
      [] e.k = "sub" -> LET a == D(e.a, ctx, P, env) b == D(e.b, ctx, P, env) IN Guard(<<a, b>>, ValSub(a, b))
      [] e.k = "neg" -> LET a == D(e.a, ctx, P, env) IN Guard(<<a>>, ValNeg(a))
      [] e.k = "concat" -> LET a == D(e.a, ctx, P, env) b == D(e.b, ctx, P, env) IN Guard(<<a, b>>, ValConcat(a, b))
      [] e.k = "prop" ->      \* field of the datum of an input, by declaration index
            LET a == D(e.a, "datum", P, env)
            IN  Guard(<<a>>, ValIndex(a, Num(FromInt(FieldPos(P, e.a.name, e.field)))))
      [] e.k = "index" -> LET a == D(e.a, ctx, P, env) i == D(e.i, ctx, P, env) IN Guard(<<a, i>>, ValIndex(a, i))
      [] e.k = "ctor" -> Ctor(e, ctx, P, env)
      [] e.k = "list" -> LET vs == DSeq(e.items, ctx, P, env) IN Guard(vs, [k |-> "list", items |-> vs])
      [] e.k = "map" -> LET ps == FlatMap(LAMBDA p : <<[a |-> D(p.a, ctx, P, env), b |-> D(p.b, ctx, P, env)]>>, e.pairs)
                        IN  Guard(FlatMap(LAMBDA p : <<p.a, p.b>>, ps), [k |-> "map", pairs |-> ps])
      [] e.k = "ada" -> LET a == D(e.a, "plain", P, env) IN Guard(<<a>>, AssetOf(Naked, a))
      [] e.k = "tok" -> LET a == D(e.a, "plain", P, env)
                            decl == Lookup(P.decls.assets, e.name)
                        IN  Guard(<<a>>, AssetOf(Defined(decl.policy, decl.asset_name), a))
      [] e.k = "anyasset" -> LET p == D(e.p, "datum", P, env) n == D(e.n, "datum", P, env) a == D(e.amt, "datum", P, env)
                             IN  Guard(<<p, n, a>>, AssetOf(ClassOf(BytesOfExpr(p), BytesOfExpr(n)), a))
      [] e.k = "tip_slot" -> Num(env.cfg.slot)
      [] e.k = "slot_to_time" -> LET a == D(e.a, ctx, P, env) IN Guard(<<a>>, SlotToTime(a, env.cfg))
      [] e.k = "time_to_slot" -> LET a == D(e.a, ctx, P, env) IN Guard(<<a>>, TimeToSlot(a, env.cfg))
      [] e.k = "utxo_ref" -> [k |-> "utxo_refs", refs |-> <<[txid |-> e.txid, index |-> e.index]>>]
      \* a literal whose output index is 2^32 + e.index: an output index has 32 bits in the IR and on chain, so there is no
      \* reference this literal could denote (in particular not output e.index of the same transaction)
      [] e.k = "utxo_ref_wide" -> Err("utxo ref output index out of range")
      [] e.k = "absent" -> None
      [] OTHER -> Unspec

(* ------------------------------------------------------------------------ *)
(* the transaction                                                           *)
(* ------------------------------------------------------------------------ *)
RefsOfUtxos(us) == {us[i].ref : i \in DOMAIN us}
BoundRefs(env, key) == IF key \in DOMAIN env.utxos THEN RefsOfUtxos(env.utxos[key]) ELSE {}

AddressBytes(v) == IF v.k \in {"address", "bytes"} THEN v.v ELSE <<>>

\* an output value -> [lovelace, assets] with range checks (C02)
OutValue(v) ==
    IF v.k = "none" THEN [k |-> "ok", lovelace |-> Zero, assets |-> [c \in {} |-> Zero]]
    ELSE IF v.k # "assetval" THEN Err("output amount")
    ELSE LET val == v.val
             toks == DOMAIN val \ {Naked}
         IN  IF IsNeg(Get(val, Naked)) THEN Err("negative lovelace")
             ELSE IF \E c \in toks : IsNeg(val[c]) THEN Err("negative asset amount")
             ELSE IF ~InU64(Get(val, Naked)) THEN Err("lovelace out of range")
             ELSE IF \E c \in toks : ~InU64(val[c]) THEN Err("asset amount out of range")
             ELSE IF \E c \in toks : c.k # "defined" THEN Unspec
             ELSE [k |-> "ok", lovelace |-> Get(val, Naked),
                   assets |-> [c \in {[policy |-> t.policy, name |-> t.name] : t \in toks} |->
                                  val[Defined(c.policy, c.name)]]]

DatumTree(v) == IF v.k = "none" THEN [k |-> "none"] ELSE Enc(v)

Output(o, P, env) ==
    LET addr == D(o.to, "address", P, env)
        amt == D(o.amount, "asset", P, env)
        dat == D(o.datum, "datum", P, env)
        val == IF Bad(amt) THEN amt ELSE OutValue(amt)
    IN  IF IsErr(addr) THEN addr ELSE IF IsErr(val) THEN val ELSE IF IsErr(dat) THEN dat
        ELSE IF IsUnspec(addr) \/ IsUnspec(val) \/ IsUnspec(dat) THEN Unspec
        ELSE IF addr.k \notin {"address", "bytes"} THEN Err("output address")
        ELSE [k |-> "out", optional |-> o.optional,
              empty |-> IsZero(val.lovelace) /\ DOMAIN val.assets = {},
              address |-> addr.v, lovelace |-> val.lovelace, assets |-> val.assets, datum |-> DatumTree(dat),
              script_ref |-> [k |-> "none"]]

\* mint: sum of mints minus sum of burns per class
MintBlockVal(b, P, env) == D(b.amount, "asset", P, env)
RECURSIVE SumBlocks(_, _, _, _)
SumBlocks(bs, i, P, env) ==
    IF i > Len(bs) THEN AssetVal(EmptyVal)
    ELSE LET v == MintBlockVal(bs[i], P, env)
             rest == SumBlocks(bs, i + 1, P, env)
         IN  IF Bad(v) THEN v ELSE IF Bad(rest) THEN rest
             ELSE IF v.k # "assetval" THEN Err("mint amount")
             ELSE IF VIsEmpty(v.val) THEN Err("zero mint")
             ELSE AssetVal(VAdd(v.val, rest.val))
\* some block states, for some class, an amount that alone does not fit the field (as a burn: its negation)
BlockBeyondField(bs, sign, P, env) ==
    \E i \in DOMAIN bs : LET v == MintBlockVal(bs[i], P, env)
                         IN  ~Bad(v) /\ v.k = "assetval" /\ \E c \in DOMAIN v.val : ~InI64(IF sign < 0 THEN Neg(v.val[c]) ELSE v.val[c])
MintOf(P, env) ==
    LET m == SumBlocks(P.tx.mints, 1, P, env)
        b == SumBlocks(P.tx.burns, 1, P, env)
    IN  IF Bad(m) THEN m ELSE IF Bad(b) THEN b
        ELSE LET net == VSub(m.val, b.val)
             IN  IF \E c \in DOMAIN net : c.k # "defined" THEN Unspec
                 ELSE IF \E c \in DOMAIN net : ~InI64(net[c]) THEN Err("mint out of range")
                 \* when the net quantity fits although one block alone does not, the property fixes the emitted
                 \* quantity, not whether the blocks are range-checked one by one: rejecting is admitted (lenient)
                 ELSE [k |-> "mint", lenient |-> BlockBeyondField(P.tx.mints, 1, P, env) \/ BlockBeyondField(P.tx.burns, -1, P, env),
                       val |-> [c \in {[policy |-> t.policy, name |-> t.name] : t \in DOMAIN net} |->
                                                 net[Defined(c.policy, c.name)]]]

SlotField(e, P, env) ==
    IF IsAbsent(e) THEN [k |-> "none"]
    ELSE LET v == D(e, "plain", P, env)
         IN  IF Bad(v) THEN v ELSE IF v.k # "number" THEN Err("slot")
             ELSE IF ~InU64(v.num) THEN Err("slot out of range")
             ELSE [k |-> "some", n |-> v.num]

\* key hash a signer entry denotes: the payment credential of an address, or 28 literal bytes
SignerHash(v) == IF v.k = "address" /\ Len(v.v) >= 29 THEN SubSeq(v.v, 2, 29)
                 ELSE IF v.k = "bytes" /\ Len(v.v) = 28 THEN v.v
                 ELSE <<>>

Metadatum(v) == IF v.k = "number" THEN (IF InMetaInt(v.num) THEN [k |-> "int", n |-> v.num] ELSE Err("metadata int out of range"))
                ELSE IF v.k = "string" THEN [k |-> "text", v |-> v.v]
                ELSE IF v.k = "bytes" THEN [k |-> "bytes", v |-> v.v]
                ELSE Err("metadatum")

RefOf(v) == IF v.k = "utxo_refs" /\ Len(v.refs) >= 1 THEN v.refs[1] ELSE [txid |-> <<>>, index |-> 0]

(* redeemers (C08): pointers into the ledger's canonical orderings *)
AllInputRefs(P, env) == UNION {BoundRefs(env, P.tx.inputs[i].key) : i \in DOMAIN P.tx.inputs}
SpendRedeemersU(P, env) ==
    LET all == AllInputRefs(P, env)
    IN  UNION {{[tag |-> SpendTag, index |-> PosAmong(r, all, RefLess),
                 data |-> Enc(D(P.tx.inputs[i].redeemer, "datum", P, env))] : r \in BoundRefs(env, P.tx.inputs[i].key)} :
               i \in {i \in DOMAIN P.tx.inputs : ~IsAbsent(P.tx.inputs[i].redeemer)}}
PoliciesOfBlock(b, P, env) ==
    LET v == MintBlockVal(b, P, env)
    IN  IF v.k = "assetval" THEN {c.policy : c \in {c \in DOMAIN v.val : c.k = "defined"}} ELSE {}
\* a redeemer written on a mint / burn block guards every policy of the block that is part of
\* the mint field (a policy whose quantities cancel out is not)
MintRedeemers(P, env, mint) ==
    LET pols == {c.policy : c \in DOMAIN mint}
        blocks == P.tx.mints \o P.tx.burns
    IN  UNION {{[tag |-> MintTag, index |-> PosAmong(p, pols, BytesLess),
                 data |-> Enc(D(blocks[i].redeemer, "datum", P, env))] : p \in PoliciesOfBlock(blocks[i], P, env) \cap pols} :
               i \in {i \in DOMAIN blocks : ~IsAbsent(blocks[i].redeemer)}}

\* two blocks with a redeemer share a policy that survives: one (mint, index) pointer cannot carry both,
\* and nothing says which one wins
MintRedeemerClash(P, env, mint) ==
    LET pols == {c.policy : c \in DOMAIN mint}
        blocks == P.tx.mints \o P.tx.burns
        guarded == {i \in DOMAIN blocks : ~IsAbsent(blocks[i].redeemer)}
    IN  \E i, j \in guarded : i # j /\ (PoliciesOfBlock(blocks[i], P, env) \cap PoliciesOfBlock(blocks[j], P, env) \cap pols) # {}

\* reward account a withdrawal names: a stake address denotes itself (29 bytes)
IsStakeAddr(v) == v.k = "address" /\ Len(v.v) = 29 /\ v.v[1] \in {224, 225, 240, 241}
WithdrawalOf(w, P, env) ==
    LET a == D(w.from, "address", P, env)
        n == D(w.amount, "plain", P, env)
    IN  IF Bad(a) THEN a ELSE IF Bad(n) THEN n
        ELSE IF ~IsStakeAddr(a) THEN Unspec
        ELSE IF n.k # "number" THEN Err("withdrawal amount")
        ELSE IF ~InU64(n.num) THEN Err("withdrawal out of range")
        ELSE [k |-> "wd", account |-> a.v, n |-> n.num]
RewardRedeemers(P, env, wds) ==
    LET accts == {wds[i].account : i \in DOMAIN wds}
    IN  {[tag |-> RewardTag, index |-> PosAmong(wds[i].account, accts, BytesLess),
          data |-> Enc(D(P.tx.withdrawals[i].redeemer, "datum", P, env))] :
            i \in {i \in DOMAIN wds : ~IsAbsent(P.tx.withdrawals[i].redeemer)}}

(* ------------------------------------------------------------------------ *)
(* chain-specific blocks (cardano::...), in source order in t.cardano          *)
(*   donation{coin}  plutus_witness{version, script}  native_witness{script}    *)
(*   publish{to, amount, datum, version, script}  vote_deleg{drep, stake}        *)
(* ------------------------------------------------------------------------ *)
CardanoOf(t) == IF "cardano" \in DOMAIN t THEN t.cardano ELSE <<>>
BlocksOfKind(t, kind) == SelectSeq(CardanoOf(t), LAMBDA b : b.k = kind)

\* the treasury donation is a positive coin; what several donation blocks mean is not stated anywhere
DonationOf(P, env) ==
    LET ds == BlocksOfKind(P.tx, "donation")
    IN  IF ds = <<>> THEN [k |-> "none"]
        ELSE IF Len(ds) > 1 THEN Unspec
        ELSE LET v == D(ds[1].coin, "plain", P, env)
             IN  IF Bad(v) THEN v ELSE IF v.k # "number" THEN Err("donation amount")
                 ELSE IF ~InU64(v.num) THEN Err("donation out of range")
                 ELSE IF IsZero(v.num) THEN Err("zero donation")
                 ELSE [k |-> "some", n |-> v.num]

KnownNativeScript(bs) == bs \in {<<130, 1, 129, 130, 4, 0>>, <<130, 1, 128>>}
\* a script carried in the witness set: (language, bytes); language 0 is a native script
WitnessOf(b, P, env) ==
    LET scr == D(b.script, "plain", P, env)
        ver == IF b.k = "plutus_witness" THEN D(b.version, "plain", P, env) ELSE Num(Zero)
    IN  IF Bad(ver) THEN ver ELSE IF Bad(scr) THEN scr
        \* the code leaves out a witness block whose fields have another shape; the property does not cover that
        ELSE IF ver.k # "number" \/ scr.k # "bytes" THEN Unspec
        ELSE IF b.k = "plutus_witness" /\ ~(FitsInt(ver.num) /\ ToInt(ver.num) \in {1, 2, 3}) THEN Unspec
        ELSE IF b.k = "native_witness" /\ ~KnownNativeScript(scr.v) THEN Unspec
        ELSE [k |-> "script", lang |-> ToInt(ver.num), v |-> scr.v]

\* the stake credential an address delegates to: [kind 0 key | 1 script, hash]
StakeCredOf(a) ==
    IF a.k \notin {"address", "bytes"} \/ Len(a.v) = 0 THEN Err("stake credential")
    ELSE LET hi == a.v[1] \div 16 IN
         IF hi \in {14, 15} /\ Len(a.v) = 29 THEN [k |-> "cred", kind |-> hi - 14, hash |-> SubSeq(a.v, 2, 29)]
         ELSE IF hi \in {0, 1, 2, 3} /\ Len(a.v) = 57 THEN [k |-> "cred", kind |-> hi \div 2, hash |-> SubSeq(a.v, 30, 57)]
         ELSE Err("stake credential")
VoteDelegOf(b, P, env) ==
    LET drep == D(b.drep, "plain", P, env)
        stake == D(b.stake, "address", P, env)
    IN  IF Bad(drep) THEN drep ELSE IF Bad(stake) THEN stake
        ELSE LET cred == StakeCredOf(stake)
             IN  IF IsErr(cred) THEN cred
                 ELSE IF drep.k # "bytes" THEN Err("drep")
                 ELSE IF Len(drep.v) # 28 THEN Err("drep hash length")
                 ELSE [k |-> "cert", kind |-> 9, cred_kind |-> cred.kind, cred |-> cred.hash, drep_kind |-> 0, drep |-> drep.v]

\* a published script: one more output, after the ordinary ones, carrying a reference script when both
\* version and script are stated
PublishOf(b, P, env) ==
    LET o == Output([name |-> "", optional |-> FALSE, to |-> b.to, amount |-> b.amount, datum |-> b.datum], P, env)
        hasRef == ~IsAbsent(b.version) /\ ~IsAbsent(b.script)
        ver == IF hasRef THEN D(b.version, "plain", P, env) ELSE Num(Zero)
        scr == IF hasRef THEN D(b.script, "plain", P, env) ELSE [k |-> "bytes", v |-> <<>>]
    IN  IF Bad(o) THEN o ELSE IF Bad(ver) THEN ver ELSE IF Bad(scr) THEN scr
        ELSE IF ~hasRef THEN [o EXCEPT !.script_ref = [k |-> "none"]]
        ELSE IF ver.k # "number" THEN Err("script version") ELSE IF scr.k # "bytes" THEN Err("script bytes")
        ELSE IF ~(FitsInt(ver.num) /\ ToInt(ver.num) \in {0, 1, 2, 3}) THEN Err("script version")
        \* whether bytes decode as a native script is not modelled: the scripts the generators use do, any other is left open
        ELSE IF ToInt(ver.num) = 0 /\ ~KnownNativeScript(scr.v) THEN Unspec
        ELSE [o EXCEPT !.script_ref = [k |-> "some", lang |-> ToInt(ver.num), v |-> scr.v]]

DenoteTx(P, env) ==
    LET t == P.tx
        outs == FlatMap(LAMBDA o : <<Output(o, P, env)>>, t.outputs)
        mint == IF t.mints = <<>> /\ t.burns = <<>> THEN [k |-> "mint", lenient |-> FALSE, val |-> [c \in {} |-> Zero]] ELSE MintOf(P, env)
        since == IF IsAbsent(t.validity) THEN [k |-> "none"] ELSE SlotField(t.validity.since, P, env)
        until == IF IsAbsent(t.validity) THEN [k |-> "none"] ELSE SlotField(t.validity.until, P, env)
        signerVals == IF IsAbsent(t.signers) THEN <<>> ELSE DSeq(t.signers.items, "plain", P, env)
        metaPairs == IF IsAbsent(t.metadata) THEN <<>>
                     ELSE FlatMap(LAMBDA m : <<[key |-> D(m.key, "plain", P, env), value |-> D(m.value, "plain", P, env)]>>, t.metadata.items)
        LabelOK(key) == IF Bad(key) THEN key ELSE IF key.k = "number" /\ InU64(key.num) THEN key ELSE Err("metadata label out of range")
        metaVals == FlatMap(LAMBDA m : <<LabelOK(m.key), m.value, IF Bad(m.value) THEN m.value ELSE Metadatum(m.value)>>, metaPairs)
        refVals == FlatMap(LAMBDA r : <<D(r.ref, "plain", P, env)>>, t.references)
        redVals == FlatMap(LAMBDA i : IF IsAbsent(i.redeemer) THEN <<>> ELSE <<D(i.redeemer, "datum", P, env)>>, t.inputs)
                   \o FlatMap(LAMBDA m : IF IsAbsent(m.redeemer) THEN <<>> ELSE <<D(m.redeemer, "datum", P, env)>>, t.mints \o t.burns)
        wds == FlatMap(LAMBDA w : <<WithdrawalOf(w, P, env)>>, t.withdrawals)
        wdReds == FlatMap(LAMBDA w : IF IsAbsent(w.redeemer) THEN <<>> ELSE <<D(w.redeemer, "datum", P, env)>>, t.withdrawals)
        donation == DonationOf(P, env)
        scripts == FlatMap(LAMBDA b : <<WitnessOf(b, P, env)>>, SelectSeq(CardanoOf(t), LAMBDA b : b.k \in {"plutus_witness", "native_witness"}))
        certs == FlatMap(LAMBDA b : <<VoteDelegOf(b, P, env)>>, BlocksOfKind(t, "vote_deleg"))
        pubs == FlatMap(LAMBDA b : <<PublishOf(b, P, env)>>, BlocksOfKind(t, "publish"))
        parts == outs \o <<mint, since, until>> \o signerVals \o metaVals \o refVals \o redVals \o wds \o wdReds
                 \o <<donation>> \o scripts \o certs \o pubs
    IN  IF \E i \in DOMAIN parts : IsErr(parts[i]) THEN [k |-> "error", why |-> (parts[CHOOSE i \in DOMAIN parts : IsErr(parts[i])]).why]
        ELSE IF \E i \in DOMAIN parts : IsUnspec(parts[i]) THEN [k |-> "unspec"]
        ELSE IF MintRedeemerClash(P, env, mint.val) THEN [k |-> "unspec"]
        ELSE [k |-> "tx",
              mayReject |-> mint.lenient,      \* an error is admitted too; if a transaction is emitted it must be this one
              inputs |-> AllInputRefs(P, env),
              outputs |-> SelectSeq(outs, LAMBDA o : ~(o.optional /\ o.empty)) \o pubs,
              donation |-> donation,
              scripts |-> {[lang |-> scripts[i].lang, v |-> scripts[i].v] : i \in DOMAIN scripts},
              certs |-> FlatMap(LAMBDA c : <<[kind |-> c.kind, cred_kind |-> c.cred_kind, cred |-> c.cred, drep_kind |-> c.drep_kind, drep |-> c.drep]>>, certs),
              mint |-> mint.val,
              fee |-> env.fee,
              start |-> since, ttl |-> until,
              signers |-> {SignerHash(signerVals[i]) : i \in DOMAIN signerVals},
              references |-> {RefOf(refVals[i]) : i \in DOMAIN refVals},
              collateral |-> IF IsAbsent(t.collateral) THEN {} ELSE BoundRefs(env, "collateral"),
              metadata |-> [lab \in {metaPairs[i].key.num : i \in DOMAIN metaPairs} |->
                              Metadatum(metaPairs[CHOOSE i \in DOMAIN metaPairs : metaPairs[i].key.num = lab].value)],
              network |-> env.cfg.network,
              withdrawals |-> [acct \in {wds[i].account : i \in DOMAIN wds} |->
                                  wds[CHOOSE i \in DOMAIN wds : wds[i].account = acct].n],
              redeemers |-> SpendRedeemersU(P, env) \cup MintRedeemers(P, env, mint.val) \cup RewardRedeemers(P, env, wds)]

(* ------------------------------------------------------------------------ *)
(* the observation (driver's projection of the decoded payload) in the same   *)
(* shape, and the first field in which two transactions differ                *)
(* ------------------------------------------------------------------------ *)
SetOfSeq(s) == {s[i] : i \in DOMAIN s}
AssetFn(items) == [c \in {[policy |-> items[i].policy, name |-> items[i].name] : i \in DOMAIN items} |->
                      items[CHOOSE i \in DOMAIN items : items[i].policy = c.policy /\ items[i].name = c.name].n]
ObsOutput(o) == [address |-> o.address, lovelace |-> o.lovelace, assets |-> AssetFn(o.assets),
                 datum |-> IF o.datum.k = "inline" THEN Strip(o.datum.data) ELSE [k |-> o.datum.k],
                 script_ref |-> o.script_ref]
ExpOutput(o) == [address |-> o.address, lovelace |-> o.lovelace, assets |-> o.assets, datum |-> o.datum, script_ref |-> o.script_ref]
ObsTx(d) == [inputs |-> SetOfSeq(d.inputs),
             outputs |-> FlatMap(LAMBDA o : <<ObsOutput(o)>>, d.outputs),
             mint |-> AssetFn(d.mint), fee |-> d.fee, start |-> d.validity_start, ttl |-> d.ttl,
             signers |-> SetOfSeq(d.required_signers), references |-> SetOfSeq(d.reference_inputs),
             collateral |-> SetOfSeq(d.collateral),
             donation |-> d.donation, scripts |-> SetOfSeq(d.scripts),
             certs |-> FlatMap(LAMBDA c : <<[kind |-> c.kind, cred_kind |-> c.cred_kind, cred |-> c.cred, drep_kind |-> c.drep_kind, drep |-> c.drep]>>, d.certs),
             metadata |-> [lab \in {d.metadata[i].label : i \in DOMAIN d.metadata} |->
                              d.metadata[CHOOSE i \in DOMAIN d.metadata : d.metadata[i].label = lab].value],
             withdrawals |-> [acct \in {d.withdrawals[i].account : i \in DOMAIN d.withdrawals} |->
                                 d.withdrawals[CHOOSE i \in DOMAIN d.withdrawals : d.withdrawals[i].account = acct].n],
             network |-> IF d.network_id.k = "some" /\ FitsInt(d.network_id.n) THEN ToInt(d.network_id.n) ELSE -1,
             redeemers |-> {[tag |-> d.redeemers[i].tag, index |-> d.redeemers[i].index, data |-> Strip(d.redeemers[i].data)] :
                               i \in DOMAIN d.redeemers}]

OutputDiff(e, o) == IF e.address # o.address THEN "address" ELSE IF e.lovelace # o.lovelace THEN "lovelace"
                    ELSE IF e.assets # o.assets THEN "assets" ELSE IF e.datum # o.datum THEN "datum"
                    ELSE IF e.script_ref # o.script_ref THEN "script_ref" ELSE "ok"
Diff(exp, obs) ==
    LET eo == FlatMap(LAMBDA o : <<ExpOutput(o)>>, exp.outputs) IN
    IF exp.inputs # obs.inputs THEN [field |-> "inputs", sub |-> ""]
    ELSE IF Len(eo) # Len(obs.outputs) THEN [field |-> "outputs", sub |-> "count"]
    ELSE IF \E i \in DOMAIN eo : OutputDiff(eo[i], obs.outputs[i]) # "ok"
         THEN [field |-> "output", sub |-> OutputDiff(eo[CHOOSE i \in DOMAIN eo : OutputDiff(eo[i], obs.outputs[i]) # "ok"],
                                                    obs.outputs[CHOOSE i \in DOMAIN eo : OutputDiff(eo[i], obs.outputs[i]) # "ok"])]
    ELSE IF exp.mint # obs.mint THEN [field |-> "mint", sub |-> ""]
    ELSE IF exp.fee # obs.fee THEN [field |-> "fee", sub |-> ""]
    ELSE IF exp.start # obs.start THEN [field |-> "validity", sub |-> "start"]
    ELSE IF exp.ttl # obs.ttl THEN [field |-> "validity", sub |-> "ttl"]
    ELSE IF exp.signers # obs.signers THEN [field |-> "signers", sub |-> ""]
    ELSE IF exp.references # obs.references THEN [field |-> "references", sub |-> ""]
    ELSE IF exp.collateral # obs.collateral THEN [field |-> "collateral", sub |-> ""]
    ELSE IF exp.metadata # obs.metadata THEN [field |-> "metadata", sub |-> ""]
    ELSE IF exp.withdrawals # obs.withdrawals THEN [field |-> "withdrawals", sub |-> ""]
    ELSE IF exp.donation # obs.donation THEN [field |-> "donation", sub |-> ""]
    ELSE IF exp.scripts # obs.scripts THEN [field |-> "witness_scripts", sub |-> ""]
    ELSE IF exp.certs # obs.certs THEN [field |-> "certificates", sub |-> ""]
    ELSE IF exp.network # obs.network THEN [field |-> "network", sub |-> ""]
    ELSE IF exp.redeemers # obs.redeemers THEN [field |-> "redeemers", sub |-> ""]
    ELSE [field |-> "ok", sub |-> ""]
=============================================================================
