-------------------------------- MODULE Build --------------------------------
(***************************************************************************)
(* Build artifacts as a history (C18): every Built event of one artifact of     *)
(* one source - whichever process, whichever repetition - carries one digest.   *)
(***************************************************************************)
EXTENDS Sequences, Naturals

\* seen : artifact name -> digest first observed
Consistent(seen, artifact, digest) == artifact \notin DOMAIN seen \/ seen[artifact] = digest
Record(seen, artifact, digest) == IF artifact \in DOMAIN seen THEN seen
                                  ELSE [a \in DOMAIN seen \cup {artifact} |-> IF a = artifact THEN digest ELSE seen[a]]
=============================================================================
