------------------------------- MODULE Backend -------------------------------
(***************************************************************************)
(* The back end as stages with outcomes (C14): ApplyArgs, ApplyFees,           *)
(* ApplyCompilerOps, Reduce, ApplyInputs, Compile and Resolve each end in ok   *)
(* or err.  There is no Panic, Abort or Timeout action.                        *)
(***************************************************************************)
EXTENDS FiniteSets, Naturals

StageNames == {"front", "apply_args", "apply_fees", "compiler_ops", "reduce", "apply_inputs", "apply+reduce",
               "constant", "compile", "resolve_tx"}
StageOutcomes == {"ok", "err"}

(* Chain-specific directives of a transaction IR: a name and a field map.  The IR a client    *)
(* sends is decodable whatever the name and whichever fields are present, so for the back end *)
(* a directive is: each field of its schema holding a value of the expected shape, or being   *)
(* absent, or holding a value of another shape.  Every such directive must end in ok or err.  *)
DirectiveFields == [withdrawal |-> {"credential", "amount", "redeemer"},
                    plutus_witness |-> {"version", "script"},
                    native_witness |-> {"script"},
                    cardano_publish |-> {"to", "amount", "datum", "version", "script"},
                    treasury_donation |-> {"coin"},
                    vote_delegation_certificate |-> {"drep", "stake"}]
DirectiveNames == DOMAIN DirectiveFields
FieldShapes == {"good", "missing", "none", "number", "negative", "bytes3", "bytes28", "list", "bool", "address", "param"}
(* a directive instance: the shape of every field of the schema, and whether an unknown field is added *)
DirectiveInstances(maxDeviations) ==
    UNION {{[name |-> d, shapes |-> sh, extra |-> x] :
               x \in BOOLEAN,
               sh \in {f \in [DirectiveFields[d] -> FieldShapes] :
                         Cardinality({k \in DirectiveFields[d] : f[k] # "good"}) <= maxDeviations}} :
           d \in DirectiveNames}

(* Metadata text and bytes around the ledger's 64-byte limit: `prefix` one-byte characters, then one      *)
(* character of `width` bytes (so that it may straddle byte 64), then `tail` more; written as one literal,  *)
(* as a concatenation that only exists after reduction, or as bytes.                                      *)
MetadataTextCases == {[prefix |-> k, width |-> w, tail |-> t, form |-> f] :
                         k \in 58..66, w \in 1..4, t \in {0, 5}, f \in {"string", "concat", "bytes"}}

(* Asset literals of an IR a client may send: one of policy / name / amount holds a constant of another     *)
(* kind, and the literal stands alone or under one of the operations that fold asset lists.                *)
AssetLiteralCases == {[op |-> o, field |-> f, kind |-> k] :
                         o \in {"alone", "add_left", "add_right", "sub_left", "sub_right", "negate", "into_assets"},
                         f \in {"policy", "name", "amount"},
                         k \in {"bool", "bytes3", "string", "list", "none", "struct", "number", "negative", "address"}}
=============================================================================
