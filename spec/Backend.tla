------------------------------- MODULE Backend -------------------------------
(***************************************************************************)
(* The back end as stages with outcomes (C14): ApplyArgs, ApplyFees,           *)
(* ApplyCompilerOps, Reduce, ApplyInputs, Compile and Resolve each end in ok   *)
(* or err.  There is no Panic, Abort or Timeout action.                        *)
(***************************************************************************)
StageNames == {"front", "apply_args", "apply_fees", "compiler_ops", "reduce", "apply_inputs", "apply+reduce",
               "constant", "compile", "resolve_tx"}
StageOutcomes == {"ok", "err"}
=============================================================================
