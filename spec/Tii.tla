--------------------------------- MODULE Tii ---------------------------------
(***************************************************************************)
(* The published interface (TII) of a program versus the IR it ships (C17).    *)
(* Declared = keys(transaction params) \cup keys(parties) \cup keys(environment) *)
(* Required = find_params(decode(tir)).                                         *)
(***************************************************************************)
EXTENDS FiniteSets, Sequences, Naturals

SetOf(s) == {s[i] : i \in DOMAIN s}

Declared(t) == SetOf(t.params) \cup SetOf(t.parties) \cup SetOf(t.environment)
\* every key the IR requires is declared under exactly that spelling
RequiredIsDeclared(t) == SetOf(t.required) \subseteq Declared(t)
\* no two declared names collapse to one IR key
NoCollapse(t) == LET all == t.params_folded \o t.parties_folded \o t.environment_folded
                 IN  Cardinality(SetOf(all)) = Len(all)
\* every declared name the body uses is required: the IR needs as many keys as the body uses names
UsedAreRequired(t, nUsed) == Cardinality(SetOf(t.required)) = nUsed
=============================================================================
