------------------------------- MODULE Reducer -------------------------------
(***************************************************************************)
(* The partial evaluator (tx3_tir::reduce) and the three substitutions, as a   *)
(* design model over abstract terms.                                          *)
(*                                                                         *)
(*   SubstArgs / SubstInputs / SubstFees replace the corresponding unresolved  *)
(*   leaves by `p_set(value)`; Reduce folds a built-in or coercion exactly      *)
(*   when all of its components are constant (the rule of `impl Apply for T:    *)
(*   Composite`), unwraps `p_set`, and otherwise only descends.                 *)
(* The properties MC_Reducer checks on it are the design-level content of C07:  *)
(* reduce is idempotent and never changes the meaning (Eval) of a partially     *)
(* applied template, whatever has been applied so far.                          *)
(***************************************************************************)
EXTENDS Tir

\* rebuild a node from new children, in Kids order
RECURSIVE Pairs2(_, _)
Pairs2(ks, i) == IF i > Len(ks) THEN <<>> ELSE <<[a |-> ks[i], b |-> ks[i + 1]]>> \o Pairs2(ks, i + 2)
RECURSIVE Triples(_, _)
Triples(ks, i) == IF i > Len(ks) THEN <<>>
                  ELSE <<[policy |-> ks[i], name |-> ks[i + 1], amount |-> ks[i + 2]]>> \o Triples(ks, i + 3)
RECURSIVE DataWith(_, _, _)
DataWith(data, ks, i) == IF i > Len(data) THEN <<>>
                         ELSE <<[key |-> data[i].key, val |-> ks[i]]>> \o DataWith(data, ks, i + 1)
WithKids(e, ks) ==
    CASE e.k \in LeafTags    -> e
      [] e.k \in UnaryTags   -> [e EXCEPT !.a = ks[1]]
      [] e.k \in BinaryTags  -> [e EXCEPT !.a = ks[1], !.b = ks[2]]
      [] e.k = "list"        -> [e EXCEPT !.items = ks]
      [] e.k = "struct"      -> [e EXCEPT !.fields = ks]
      [] e.k = "map"         -> [e EXCEPT !.pairs = Pairs2(ks, 1)]
      [] e.k = "assets"      -> [e EXCEPT !.items = Triples(ks, 1)]
      [] e.k = "p_input"     -> [e EXCEPT !.q = [e.q EXCEPT !.address = ks[1], !.min_amount = ks[2], !.ref = ks[3]]]
      [] e.k = "adhoc"       -> [e EXCEPT !.data = DataWith(e.data, ks, 1)]
MapKids(F(_), e) == WithKids(e, FlatMap(LAMBDA x : <<F(x)>>, Kids(e)))

Set(x) == [k |-> "p_set", a |-> x]

RECURSIVE SubstArgs(_, _)
SubstArgs(e, args) == IF e.k = "p_value" /\ e.name \in DOMAIN args THEN Set(args[e.name])
                      ELSE MapKids(LAMBDA x : SubstArgs(x, args), e)
RECURSIVE SubstInputs(_, _)
SubstInputs(e, inputs) == IF e.k = "p_input" /\ e.name \in DOMAIN inputs THEN Set(inputs[e.name])
                          ELSE MapKids(LAMBDA x : SubstInputs(x, inputs), e)
RECURSIVE SubstFees(_, _)
SubstFees(e, fee) == IF e.k = "p_fees" THEN Set(AssetVal(Single(Naked, fee)))
                     ELSE MapKids(LAMBDA x : SubstFees(x, fee), e)

CONSTANT IndexIsComponent    \* FALSE = deviation of the pinned code: the index of a property access is not
                             \* looked at when deciding whether the access can be folded
\* a term the reducer regards as constant
RECURSIVE IsConst(_)
IsConst(e) == CASE e.k \in {"p_value", "p_input", "p_fees"} -> FALSE
                [] e.k \in CompilerTags -> FALSE
                [] e.k = "property" /\ ~IndexIsComponent -> IsConst(e.a)
                [] OTHER -> \A x \in Range(Kids(e)) : IsConst(x)

\* fold one node whose components are constant: the value-level operation on their normal forms
NoEnv == [args |-> <<>>, inputs |-> <<>>, fee |-> Zero, cfg |-> [slot |-> Zero, ts |-> Zero, network |-> 0, cpb |-> 0, mem |-> None]]
FoldNode(e) == Eval(e, NoEnv)

RECURSIVE Reduce(_)
Reduce(e) ==
    CASE e.k \in LeafTags -> e
      [] e.k = "p_set" -> Reduce(e.a)
      [] e.k \in {"add", "sub", "concat", "negate", "property", "noop", "co_noop", "into_assets", "into_datum"} ->
            LET r == MapKids(Reduce, e)
            IN  IF IsConst(r) THEN FoldNode(r) ELSE r
      [] OTHER -> MapKids(Reduce, e)

\* compiler pass: every compiler op whose (reduced) operand is constant is evaluated
RECURSIVE SubstCops(_, _)
SubstCops(e, cfg) ==
    LET r == MapKids(LAMBDA x : SubstCops(x, cfg), e)
    IN  IF r.k \in CompilerTags /\ (r.k = "c_tip_slot" \/ IsConst(Reduce(r.a)))
        THEN Eval(IF r.k = "c_tip_slot" THEN r ELSE [r EXCEPT !.a = Reduce(r.a)], [NoEnv EXCEPT !.cfg = cfg])
        ELSE r
=============================================================================
