------------------------------- MODULE Assets -------------------------------
(***************************************************************************)
(* Multi-asset values (tx3_tir::model::assets::CanonicalAssets).            *)
(*                                                                         *)
(* Two levels are specified:                                               *)
(*  - the ABSTRACT value: a function from a finite set of asset classes to  *)
(*    NON-ZERO big integers (finite support).  All laws and the meaning of  *)
(*    every public operation are stated on abstract values.                 *)
(*  - the REPRESENTATION the code keeps: a partial map class -> integer     *)
(*    that may hold zero entries (constructors and negation do not remove   *)
(*    them; add/sub do).  Abs(rep) forgets zero entries.                    *)
(*                                                                         *)
(* An asset class is  [k |-> "naked"]  |  [k |-> "named", name |-> bytes]   *)
(*                  | [k |-> "defined", policy |-> bytes, name |-> bytes].  *)
(* Amounts are BigInt values (see BigInt.tla).                              *)
(***************************************************************************)
EXTENDS BigInt, FiniteSets, TLC

Naked == [k |-> "naked"]
Named(n) == [k |-> "named", name |-> n]
Defined(p, n) == [k |-> "defined", policy |-> p, name |-> n]

NoBytes == [k |-> "none"]                    \* an absent optional byte string
SomeBytes(b) == [k |-> "some", v |-> b]

(* The class a constructor call denotes: an empty policy degrades to a named  *)
(* asset, an empty name to lovelace ("naked").                               *)
ClassOf(policyOpt, nameOpt) ==
    LET p == IF policyOpt.k = "some" THEN policyOpt.v ELSE <<>>
        n == IF nameOpt.k = "some" THEN nameOpt.v ELSE <<>>
    IN  IF Len(p) > 0 THEN Defined(p, n)
        ELSE IF Len(n) > 0 THEN Named(n)
        ELSE Naked

\* ---------------------------------------------------------------- abstract
Get(v, c) == IF c \in DOMAIN v THEN v[c] ELSE Zero

Support(f) == {c \in DOMAIN f : ~IsZero(f[c])}
Abs(rep) == [c \in Support(rep) |-> rep[c]]       \* forget zero entries

EmptyVal == [c \in {} |-> Zero]
Single(c, n) == Abs([x \in {c} |-> n])

VAdd(x, y) == Abs([c \in DOMAIN x \cup DOMAIN y |-> Add(Get(x, c), Get(y, c))])
VNeg(x) == [c \in DOMAIN x |-> Neg(x[c])]
VSub(x, y) == VAdd(x, VNeg(y))

IsAbs(v) == \A c \in DOMAIN v : ~IsZero(v[c])
NonNeg(v) == \A c \in DOMAIN v : ~IsNeg(v[c])

\* observers, defined on abstract values
VEq(x, y) == Abs(x) = Abs(y)
VIsEmpty(x) == Support(x) = {}
VIsEmptyOrNegative(x) == \A c \in DOMAIN x : ~IsPos(x[c])
VIsOnlyNaked(x) == Support(x) \subseteq {Naked}
\* containment is the component-wise >= order; only specified for x, y >= 0
VContainsTotal(x, y) == \A c \in DOMAIN y : Ge(Get(x, c), y[c])
\* "x can contribute to y": y asks for nothing, or x holds some class y asks for
VContainsSome(x, y) == VIsEmpty(y) \/ \E c \in Support(y) : IsPos(y[c]) /\ IsPos(Get(x, c))

\* -------------------------------------------------- representation (the code)
(* What the code keeps.  Constructors insert the entry even when the amount   *)
(* is zero; Neg keeps zero entries; Add/Sub drop them.                        *)
RepEmpty == [c \in {} |-> Zero]
RepSingle(c, n) == [x \in {c} |-> n]
RepAdd(x, y) == Abs([c \in DOMAIN x \cup DOMAIN y |-> Add(Get(x, c), Get(y, c))])
RepSub(x, y) == Abs([c \in DOMAIN x \cup DOMAIN y |-> Sub(Get(x, c), Get(y, c))])
RepNeg(x) == [c \in DOMAIN x |-> Neg(x[c])]

\* the deviation the pinned code has: equality on the representation
RepEqDerived(x, y) == x = y
=============================================================================
