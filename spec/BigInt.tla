------------------------------- MODULE BigInt -------------------------------
(***************************************************************************)
(* Arbitrary-precision integers for TLC (whose native integers are 32 bit). *)
(* A big integer is a record [neg : BOOLEAN, mag : Seq(0..BASE-1)], the     *)
(* magnitude little-endian in base 10^4 without leading (most significant)  *)
(* zero limbs; zero is [neg |-> FALSE, mag |-> <<>>].  Everything the       *)
(* tx3 specification computes on quantities that may exceed 2^31 (lovelace, *)
(* i128 arguments, slots, datum integers) is computed with these operators, *)
(* so the oracle values are produced by the specification itself.           *)
(***************************************************************************)
EXTENDS Naturals, Integers, Sequences

BASE == 10000

Zero == [neg |-> FALSE, mag |-> <<>>]

IsBig(x) == /\ DOMAIN x = {"neg", "mag"}
            /\ x.neg \in BOOLEAN
            /\ \A i \in 1..Len(x.mag) : x.mag[i] \in 0..(BASE-1)
            /\ (Len(x.mag) > 0 => x.mag[Len(x.mag)] # 0)
            /\ (Len(x.mag) = 0 => ~x.neg)

IsZero(x) == Len(x.mag) = 0

\* --- magnitudes -----------------------------------------------------------

RECURSIVE Trim(_)
Trim(m) == IF Len(m) > 0 /\ m[Len(m)] = 0 THEN Trim(SubSeq(m, 1, Len(m)-1)) ELSE m

Limb(m, i) == IF i <= Len(m) THEN m[i] ELSE 0

Max2(a, b) == IF a >= b THEN a ELSE b

RECURSIVE MagCmpFrom(_, _, _)
MagCmpFrom(a, b, i) ==        \* compare limbs i, i-1, ..., 1 (equal lengths assumed above i)
    IF i = 0 THEN 0
    ELSE IF a[i] > b[i] THEN 1
    ELSE IF a[i] < b[i] THEN -1
    ELSE MagCmpFrom(a, b, i-1)

MagCmp(a, b) == IF Len(a) > Len(b) THEN 1
                ELSE IF Len(a) < Len(b) THEN -1
                ELSE MagCmpFrom(a, b, Len(a))

RECURSIVE MagAddFrom(_, _, _, _, _)
MagAddFrom(a, b, i, carry, acc) ==
    IF i > Max2(Len(a), Len(b))
    THEN IF carry = 0 THEN acc ELSE Append(acc, carry)
    ELSE LET s == Limb(a, i) + Limb(b, i) + carry
         IN  MagAddFrom(a, b, i+1, s \div BASE, Append(acc, s % BASE))

MagAdd(a, b) == MagAddFrom(a, b, 1, 0, <<>>)

RECURSIVE MagSubFrom(_, _, _, _, _)
MagSubFrom(a, b, i, borrow, acc) ==       \* requires a >= b
    IF i > Len(a) THEN Trim(acc)
    ELSE LET d == Limb(a, i) - Limb(b, i) - borrow
         IN  IF d < 0 THEN MagSubFrom(a, b, i+1, 1, Append(acc, d + BASE))
                      ELSE MagSubFrom(a, b, i+1, 0, Append(acc, d))

MagSub(a, b) == MagSubFrom(a, b, 1, 0, <<>>)

RECURSIVE MagMulSmallFrom(_, _, _, _, _)
MagMulSmallFrom(a, k, i, carry, acc) ==   \* 0 <= k < BASE
    IF i > Len(a)
    THEN IF carry = 0 THEN acc ELSE Append(acc, carry)
    ELSE LET p == a[i] * k + carry
         IN  MagMulSmallFrom(a, k, i+1, p \div BASE, Append(acc, p % BASE))

MagMulSmall(a, k) == IF k = 0 THEN <<>> ELSE MagMulSmallFrom(a, k, 1, 0, <<>>)

\* quotient and remainder of a magnitude by a small divisor 0 < k < BASE
RECURSIVE MagDivSmallFrom(_, _, _, _, _)
MagDivSmallFrom(a, k, i, rem, acc) ==     \* i runs from Len(a) down to 1; acc is little-endian
    IF i = 0 THEN [q |-> acc, r |-> rem]
    ELSE LET cur == rem * BASE + a[i]
         IN  MagDivSmallFrom(a, k, i-1, cur % k, <<cur \div k>> \o acc)

MagDivSmall(a, k) == LET r == MagDivSmallFrom(a, k, Len(a), 0, <<>>)
                     IN  [q |-> Trim(r.q), r |-> r.r]

\* --- signed ----------------------------------------------------------------

Mk(neg, mag) == IF Len(mag) = 0 THEN Zero ELSE [neg |-> neg, mag |-> mag]

RECURSIVE NatLimbs(_)
NatLimbs(n) == IF n = 0 THEN <<>> ELSE <<n % BASE>> \o NatLimbs(n \div BASE)

FromInt(n) == IF n >= 0 THEN Mk(FALSE, NatLimbs(n)) ELSE Mk(TRUE, NatLimbs(-n))

\* only for values known to fit TLC's integers
RECURSIVE MagToNat(_, _)
MagToNat(m, i) == IF i > Len(m) THEN 0 ELSE m[i] + BASE * MagToNat(m, i+1)
ToInt(x) == IF x.neg THEN -MagToNat(x.mag, 1) ELSE MagToNat(x.mag, 1)
FitsInt(x) == Len(x.mag) <= 2 \/ (Len(x.mag) = 3 /\ x.mag[3] <= 20)   \* |x| < 2.1e9

Neg(x) == IF IsZero(x) THEN Zero ELSE [neg |-> ~x.neg, mag |-> x.mag]

Add(x, y) ==
    IF x.neg = y.neg THEN Mk(x.neg, MagAdd(x.mag, y.mag))
    ELSE LET c == MagCmp(x.mag, y.mag)
         IN  IF c = 0 THEN Zero
             ELSE IF c > 0 THEN Mk(x.neg, MagSub(x.mag, y.mag))
             ELSE Mk(y.neg, MagSub(y.mag, x.mag))

Sub(x, y) == Add(x, Neg(y))

Cmp(x, y) ==
    IF x.neg /\ ~y.neg THEN -1
    ELSE IF ~x.neg /\ y.neg THEN 1
    ELSE IF x.neg THEN MagCmp(y.mag, x.mag)
    ELSE MagCmp(x.mag, y.mag)

Eq(x, y) == Cmp(x, y) = 0
Lt(x, y) == Cmp(x, y) < 0
Le(x, y) == Cmp(x, y) <= 0
Gt(x, y) == Cmp(x, y) > 0
Ge(x, y) == Cmp(x, y) >= 0
Sign(x) == IF IsZero(x) THEN 0 ELSE IF x.neg THEN -1 ELSE 1
IsNeg(x) == x.neg
IsPos(x) == ~x.neg /\ ~IsZero(x)

\* multiplication by a small non-negative native integer k < BASE
MulSmall(x, k) == Mk(x.neg, MagMulSmall(x.mag, k))

\* multiplication by any native integer (|k| < 2^31), by limbs of k
RECURSIVE Zeros(_)
Zeros(n) == IF n = 0 THEN <<>> ELSE <<0>> \o Zeros(n - 1)
RECURSIVE MagMulNat(_, _, _)
MagMulNat(a, k, shift) ==       \* k >= 0 native; shift = limbs to prepend
    IF k = 0 THEN <<>>
    ELSE MagAdd(Zeros(shift) \o MagMulSmall(a, k % BASE),
                MagMulNat(a, k \div BASE, shift + 1))
MulInt(x, k) == IF k >= 0 THEN Mk(x.neg, Trim(MagMulNat(x.mag, k, 0)))
                ELSE Mk(~x.neg, Trim(MagMulNat(x.mag, -k, 0)))

\* truncating division (towards zero) by a small positive native integer, as Rust's `/`
DivSmallTrunc(x, k) == Mk(x.neg, MagDivSmall(x.mag, k).q)

\* --- well-known constants ----------------------------------------------------
\* 2^63 = 9223372036854775808, 2^64 = 18446744073709551616, 2^127 = 170141183460469231731687303715884105728
Two63  == [neg |-> FALSE, mag |-> <<5808, 5477, 368, 3372, 922>>]
Two64  == [neg |-> FALSE, mag |-> <<1616, 955, 737, 6744, 1844>>]
Two127 == [neg |-> FALSE, mag |-> <<5728, 8410, 7158, 7303, 3168, 2317, 469, 8346, 1411, 170>>]
Two32  == [neg |-> FALSE, mag |-> <<7296, 9496, 42>>]

One == FromInt(1)
U64Max == Sub(Two64, One)
I64Max == Sub(Two63, One)
I64Min == Neg(Two63)
I128Max == Sub(Two127, One)
I128Min == Neg(Two127)

InRange(x, lo, hi) == Le(lo, x) /\ Le(x, hi)
FitsU64(x)  == InRange(x, Zero, U64Max)
FitsI64(x)  == InRange(x, I64Min, I64Max)
FitsI128(x) == InRange(x, I128Min, I128Max)

\* --- decimal rendering (ASCII digit codes), used by concat(string, number) ----
Digits4(n, pad) ==    \* digits of limb n; all 4 when pad, otherwise without leading zeros
    LET d == <<48 + (n \div 1000), 48 + ((n \div 100) % 10), 48 + ((n \div 10) % 10), 48 + (n % 10)>>
        first == IF pad THEN 1
                 ELSE IF n >= 1000 THEN 1 ELSE IF n >= 100 THEN 2 ELSE IF n >= 10 THEN 3 ELSE 4
    IN  SubSeq(d, first, 4)

RECURSIVE MagDigits(_, _)
MagDigits(m, i) == IF i = 0 THEN <<>>
                   ELSE Digits4(m[i], i # Len(m)) \o MagDigits(m, i-1)

ToDecimal(x) == IF IsZero(x) THEN <<48>>
                ELSE (IF x.neg THEN <<45>> ELSE <<>>) \o MagDigits(x.mag, Len(x.mag))
=============================================================================
