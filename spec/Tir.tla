--------------------------------- MODULE Tir ---------------------------------
(***************************************************************************)
(* Abstract transaction IR (tx3_tir::model::v1beta0) and its meaning.        *)
(*                                                                         *)
(* A term is a record tagged by `k`, one tag per variant of Expression,      *)
(* Param, BuiltInOp, CompilerOp and Coerce (see `Kids` for the full list).   *)
(* A template `Tx` is a record of slots.  The module defines                 *)
(*   - Kids / TxKids : the children of every node: ONE generic structural    *)
(*     description of the tree, written from the data model, independent of  *)
(*     the code's `Composite`/`Apply`/`Node` implementations;                 *)
(*   - ParamNames / QueryNames / HasFees / CompilerOps : what is unresolved;  *)
(*   - Eval / EvalTx : the big-step meaning of a template under a full        *)
(*     environment (arguments, input UTxOs, fee, compiler configuration);     *)
(*   - Norm : the canonical form of a constant term (asset lists become       *)
(*     class -> amount functions, UTxO lists become sets).                    *)
(* Numbers are BigInt, byte strings are sequences of 0..255.  A field name     *)
(* always holds the same kind of value (v: bytes, num: BigInt, flag: BOOLEAN,  *)
(* val: class function, set: UTxO set) so that any two terms are comparable.   *)
(***************************************************************************)
EXTENDS Assets, Sequences, SequencesExt

None == [k |-> "none"]
Num(n) == [k |-> "number", num |-> n]
Err(why) == [k |-> "error", why |-> why]
Unspec == [k |-> "unspec"]          \* the specification does not fix this corner

LeafTags == {"none", "bytes", "number", "bool", "string", "address", "hash", "utxo_refs",
             "utxo_set", "p_value", "p_fees", "c_tip_slot", "assetval", "utxoval", "error", "unspec"}
UnaryTags == {"p_set", "negate", "noop", "c_script_address", "c_min_utxo", "c_slot_to_time",
              "c_time_to_slot", "co_noop", "into_assets", "into_datum", "into_script"}
BinaryTags == {"add", "sub", "concat", "property", "tuple"}
CompilerTags == {"c_script_address", "c_min_utxo", "c_tip_slot", "c_slot_to_time", "c_time_to_slot"}

FlatMap(F(_), s) == FoldLeft(LAMBDA acc, x : acc \o F(x), <<>>, s)

(* ------------------------------------------------------------------------ *)
(* children of every node                                                    *)
(* ------------------------------------------------------------------------ *)
Kids(e) ==
    CASE e.k \in LeafTags    -> <<>>
      [] e.k \in UnaryTags   -> <<e.a>>
      [] e.k \in BinaryTags  -> <<e.a, e.b>>
      [] e.k = "list"        -> e.items
      [] e.k = "map"         -> FlatMap(LAMBDA p : <<p.a, p.b>>, e.pairs)
      [] e.k = "struct"      -> e.fields
      [] e.k = "assets"      -> FlatMap(LAMBDA x : <<x.policy, x.name, x.amount>>, e.items)
      [] e.k = "p_input"     -> <<e.q.address, e.q.min_amount, e.q.ref>>
      [] e.k = "adhoc"       -> FlatMap(LAMBDA d : <<d.val>>, e.data)

OptKids(o) == IF o.k = "none" THEN <<>> ELSE o.items      \* signers
TxKids(t) ==
    <<t.fees>> \o t.references
    \o FlatMap(LAMBDA i : <<i.utxos, i.redeemer>>, t.inputs)
    \o FlatMap(LAMBDA o : <<o.address, o.datum, o.amount>>, t.outputs)
    \o (IF t.validity.k = "none" THEN <<>> ELSE <<t.validity.since, t.validity.until>>)
    \o FlatMap(LAMBDA m : <<m.amount, m.redeemer>>, t.mints)
    \o FlatMap(LAMBDA m : <<m.amount, m.redeemer>>, t.burns)
    \o FlatMap(LAMBDA d : FlatMap(LAMBDA x : <<x.val>>, d.data), t.adhoc)
    \o FlatMap(LAMBDA c : <<c.utxos>>, t.collateral)
    \o OptKids(t.signers)
    \o FlatMap(LAMBDA m : <<m.key, m.value>>, t.metadata)


RECURSIVE ParamNames(_)
ParamNames(e) == (IF e.k = "p_value" THEN {e.name} ELSE {})
                 \cup UNION {ParamNames(c) : c \in Range(Kids(e))}
\* queries the template has to be given: a query nested inside the fields of another query
\* disappears when the enclosing input is supplied, so the walk stops at a p_input node
RECURSIVE QueryNames(_)
QueryNames(e) == IF e.k = "p_input" THEN {e.name}
                 ELSE UNION {QueryNames(c) : c \in Range(Kids(e))}
RECURSIVE AllQueryNames(_)        \* every p_input node, nested ones included
AllQueryNames(e) == (IF e.k = "p_input" THEN {e.name} ELSE {})
                    \cup UNION {AllQueryNames(c) : c \in Range(Kids(e))}
RECURSIVE HasTag(_, _)
HasTag(e, tags) == e.k \in tags \/ \E c \in Range(Kids(e)) : HasTag(c, tags)

TxParamNames(t) == UNION {ParamNames(c) : c \in Range(TxKids(t))}
TxQueryNames(t) == UNION {QueryNames(c) : c \in Range(TxKids(t))}
TxHasTag(t, tags) == \E c \in Range(TxKids(t)) : HasTag(c, tags)
\* anything that is not yet a value
UnresolvedTags == {"p_value", "p_input", "p_fees"}

(* ------------------------------------------------------------------------ *)
(* canonical constants                                                       *)
(* ------------------------------------------------------------------------ *)
BytesOfExpr(e) == IF e.k \in {"bytes", "string", "address", "hash"} THEN SomeBytes(e.v) ELSE NoBytes

\* a constant asset list denotes the sum of its entries
RECURSIVE SumItems(_, _)
SumItems(items, i) ==
    IF i > Len(items) THEN EmptyVal
    ELSE VAdd(Single(ClassOf(BytesOfExpr(items[i].policy), BytesOfExpr(items[i].name)),
                     items[i].amount.num),
              SumItems(items, i + 1))

ConstItems(items) == \A i \in DOMAIN items : /\ items[i].amount.k = "number"
                                              /\ items[i].policy.k \in {"none", "bytes"}
                                              /\ items[i].name.k \in {"none", "bytes", "string"}

AssetVal(v) == [k |-> "assetval", val |-> v]
EntriesVal(entries) ==        \* [{c, n}] -> class function
    [c \in {entries[i].c : i \in DOMAIN entries} |->
        entries[CHOOSE i \in DOMAIN entries : entries[i].c = c].n]

RECURSIVE Norm(_)
NormUtxo(u) == [ref |-> u.ref, address |-> u.address, assets |-> Abs(EntriesVal(u.assets)),
                datum |-> Norm(u.datum)]
Norm(e) ==
    CASE e.k \in (LeafTags \ {"utxo_set"}) -> e
      [] e.k = "utxo_set"  -> [k |-> "utxoval", set |-> {NormUtxo(e.utxos[i]) : i \in DOMAIN e.utxos}]
      [] e.k \in UnaryTags -> [e EXCEPT !.a = Norm(e.a)]
      [] e.k \in BinaryTags -> [e EXCEPT !.a = Norm(e.a), !.b = Norm(e.b)]
      [] e.k = "list"   -> [e EXCEPT !.items = FlatMap(LAMBDA x : <<Norm(x)>>, e.items)]
      [] e.k = "struct" -> [e EXCEPT !.fields = FlatMap(LAMBDA x : <<Norm(x)>>, e.fields)]
      [] e.k = "map"    -> [e EXCEPT !.pairs = FlatMap(LAMBDA p : <<[a |-> Norm(p.a), b |-> Norm(p.b)]>>, e.pairs)]
      [] e.k = "assets" -> IF ConstItems(e.items) THEN AssetVal(SumItems(e.items, 1))
                           ELSE [e EXCEPT !.items = FlatMap(LAMBDA x : <<[policy |-> Norm(x.policy),
                                    name |-> Norm(x.name), amount |-> Norm(x.amount)]>>, e.items)]
      [] e.k = "p_input" -> [e EXCEPT !.q = [e.q EXCEPT !.address = Norm(e.q.address),
                                   !.min_amount = Norm(e.q.min_amount), !.ref = Norm(e.q.ref)]]
      [] e.k = "adhoc" -> [e EXCEPT !.data = FlatMap(LAMBDA d : <<[key |-> d.key, val |-> Norm(d.val)]>>, e.data)]

IsErr(v) == v.k = "error"
IsUnspec(v) == v.k = "unspec"
Bad(v) == v.k \in {"error", "unspec"}
\* first error / unspec among a sequence of values, or `ok`
RECURSIVE FirstBad(_, _, _)
FirstBad(vs, i, ok) == IF i > Len(vs) THEN ok
                       ELSE IF IsErr(vs[i]) THEN vs[i]
                       ELSE IF IsUnspec(vs[i]) THEN FirstBad(vs, i + 1, Unspec)
                       ELSE FirstBad(vs, i + 1, ok)
\* errors win over unspec; `ok` is only built when every part is a value
Guard(vs, ok) == LET b == FirstBad(vs, 1, None)
                 IN  IF Bad(b) THEN b ELSE ok

(* ------------------------------------------------------------------------ *)
(* value-level operations                                                    *)
(* ------------------------------------------------------------------------ *)
\* the language's integers are 128-bit: a result outside that range is an overflow error
NumOrOverflow(n) == IF FitsI128(n) THEN Num(n) ELSE Err("overflow")
AssetOrOverflow(v) == IF \A c \in DOMAIN v : FitsI128(v[c]) THEN AssetVal(v) ELSE Err("overflow")
ValAdd(x, y) ==
    IF x.k = "number" /\ y.k = "number" THEN NumOrOverflow(Add(x.num, y.num))
    ELSE IF x.k = "assetval" /\ y.k = "assetval" THEN AssetOrOverflow(VAdd(x.val, y.val))
    ELSE IF x.k = "none" \/ y.k = "none" THEN Unspec
    ELSE Err("add")
ValNeg(x) ==
    IF x.k = "number" THEN NumOrOverflow(Neg(x.num))
    ELSE IF x.k = "assetval" THEN AssetOrOverflow(VNeg(x.val))
    ELSE IF x.k = "none" THEN Unspec
    ELSE Err("neg")
ValSub(x, y) ==
    IF x.k = "number" /\ y.k = "number" THEN NumOrOverflow(Sub(x.num, y.num))
    \* (asset subtraction adds the negated bundle: when an amount of y is the least 128-bit integer that negation
    \* overflows although the difference may fit -- failing there is an admitted answer, so the corner is left open)
    ELSE IF x.k = "assetval" /\ y.k = "assetval"
         THEN IF (\E c \in DOMAIN y.val : y.val[c] = I128Min) /\ ~IsErr(AssetOrOverflow(VSub(x.val, y.val))) THEN Unspec
              ELSE AssetOrOverflow(VSub(x.val, y.val))
    ELSE IF x.k = "none" \/ y.k = "none" THEN Unspec
    ELSE Err("sub")
ValConcat(x, y) ==
    IF x.k = "string" /\ y.k = "string" THEN [k |-> "string", v |-> x.v \o y.v]
    ELSE IF x.k = "string" /\ y.k = "number" THEN [k |-> "string", v |-> x.v \o ToDecimal(y.num)]
    ELSE IF x.k = "bytes" /\ y.k = "bytes" THEN [k |-> "bytes", v |-> x.v \o y.v]
    ELSE IF x.k = "list" /\ y.k = "list" THEN [k |-> "list", items |-> x.items \o y.items]
    ELSE IF x.k = "none" \/ y.k = "none" THEN Unspec
    ELSE Err("concat")
\* x[i] / x.field-by-position
ValIndex(x, i) ==
    IF x.k = "map"
    THEN IF \E j \in DOMAIN x.pairs : x.pairs[j].a = i
         THEN LET j == CHOOSE j \in DOMAIN x.pairs :
                          x.pairs[j].a = i /\ \A h \in DOMAIN x.pairs : x.pairs[h].a = i => j <= h
              IN  [k |-> "tuple", a |-> x.pairs[j].a, b |-> x.pairs[j].b]
         ELSE Err("index")
    ELSE IF i.k # "number" \/ IsNeg(i.num) \/ ~FitsInt(i.num) THEN Err("index")
    ELSE LET n == ToInt(i.num) IN
         IF x.k = "struct" THEN (IF n < Len(x.fields) THEN x.fields[n + 1] ELSE Err("index"))
         ELSE IF x.k = "list" THEN (IF n < Len(x.items) THEN x.items[n + 1] ELSE Err("index"))
         ELSE IF x.k = "tuple" THEN (IF n = 0 THEN x.a ELSE IF n = 1 THEN x.b ELSE Err("index"))
         ELSE Err("index")

SumUtxos(us) == LET RECURSIVE S(_)
                    S(set) == IF set = {} THEN EmptyVal
                              ELSE LET u == CHOOSE u \in set : TRUE
                                   IN  VAdd(u.assets, S(set \ {u}))
                IN  S(us)

IntoAssets(x) ==
    IF x.k = "none" THEN None
    ELSE IF x.k = "assetval" THEN x
    ELSE IF x.k = "utxoval" THEN AssetVal(SumUtxos(x.set))
    ELSE Err("into_assets")
IntoDatum(x) ==
    IF x.k = "none" THEN None
    ELSE IF x.k = "utxoval"
         THEN IF Cardinality(x.set) = 1 THEN (CHOOSE u \in x.set : TRUE).datum
              ELSE IF x.set = {} THEN None ELSE Unspec      \* "the" datum of several UTxOs is not defined
    ELSE IF x.k \in {"list", "map", "tuple", "struct", "bytes", "number", "string"} THEN x
    ELSE IF x.k \in {"address", "hash"} THEN [k |-> "bytes", v |-> x.v]
    ELSE Err("into_datum")

(* compiler-evaluated built-ins; cfg = [slot, ts (BigInt), network (0/1), cpb, mem] *)
ScriptAddress(h, cfg) ==
    IF h.k \in {"bytes", "hash"} /\ Len(h.v) = 28
    THEN [k |-> "address", v |-> <<112 + cfg.network>> \o h.v]
    ELSE IF h.k \in {"bytes", "hash"} THEN Unspec            \* wrong length: totality is C14's matter
    ELSE Err("script_address")
SlotToTime(s, cfg) ==
    IF s.k # "number" THEN Err("slot_to_time")
    ELSE IF IsNeg(s.num) THEN Err("negative slot")
    ELSE Num(Add(cfg.ts, MulInt(Sub(s.num, cfg.slot), 1000)))
TimeToSlot(t, cfg) ==
    IF t.k # "number" THEN Err("time_to_slot")
    ELSE IF IsNeg(t.num) THEN Err("negative time")
    ELSE IF Lt(t.num, cfg.ts) THEN Unspec                       \* floor vs truncation is not fixed
    ELSE Num(Add(cfg.slot, DivSmallTrunc(Sub(t.num, cfg.ts), 1000)))
MinUtxo(i, cfg) ==
    IF i.k # "number" THEN Err("min_utxo")
    ELSE IF cfg.mem.k = "none" THEN AssetVal(Single(Naked, MulInt(FromInt(197), cfg.cpb)))
    ELSE Unspec                                               \* sized from a previous body: see ResolveLoop

(* ------------------------------------------------------------------------ *)
(* big-step evaluation under a full environment                              *)
(*   env = [args : name -> constant term, inputs : name -> utxo_set term,    *)
(*          fee : BigInt, cfg]                                               *)
(* ------------------------------------------------------------------------ *)
RECURSIVE Eval(_, _)
EvalSeq(s, env) == FlatMap(LAMBDA x : <<Eval(x, env)>>, s)

Eval(e, env) ==
    CASE e.k \in {"none", "bytes", "number", "bool", "string", "address", "hash", "utxo_refs",
                  "assetval", "utxoval", "error", "unspec"} -> e
      [] e.k = "utxo_set" -> Norm(e)
      [] e.k = "p_value" -> IF e.name \in DOMAIN env.args THEN Norm(env.args[e.name]) ELSE Err("missing arg")
      [] e.k = "p_input" -> IF e.name \in DOMAIN env.inputs THEN Norm(env.inputs[e.name]) ELSE Err("missing input")
      [] e.k = "p_fees" -> AssetVal(Single(Naked, env.fee))
      [] e.k \in {"p_set", "noop", "co_noop"} -> Eval(e.a, env)
      [] e.k = "list" -> LET vs == EvalSeq(e.items, env) IN Guard(vs, [k |-> "list", items |-> vs])
      [] e.k = "struct" -> LET vs == EvalSeq(e.fields, env)
                           IN  Guard(vs, [k |-> "struct", ctor |-> e.ctor, fields |-> vs])
      [] e.k = "tuple" -> LET a == Eval(e.a, env) b == Eval(e.b, env)
                          IN  Guard(<<a, b>>, [k |-> "tuple", a |-> a, b |-> b])
      [] e.k = "map" -> LET ps == FlatMap(LAMBDA p : <<[a |-> Eval(p.a, env), b |-> Eval(p.b, env)]>>, e.pairs)
                        IN  Guard(FlatMap(LAMBDA p : <<p.a, p.b>>, ps), [k |-> "map", pairs |-> ps])
      [] e.k = "assets" ->
            LET its == FlatMap(LAMBDA x : <<[policy |-> Eval(x.policy, env), name |-> Eval(x.name, env),
                                            amount |-> Eval(x.amount, env)]>>, e.items)
                flat == FlatMap(LAMBDA x : <<x.policy, x.name, x.amount>>, its)
            IN  Guard(flat, IF ConstItems(its) THEN AssetVal(SumItems(its, 1)) ELSE Err("asset item"))
      [] e.k = "add" -> LET a == Eval(e.a, env) b == Eval(e.b, env) IN Guard(<<a, b>>, ValAdd(a, b))
      [] e.k = "sub" -> LET a == Eval(e.a, env) b == Eval(e.b, env) IN Guard(<<a, b>>, ValSub(a, b))
      [] e.k = "concat" -> LET a == Eval(e.a, env) b == Eval(e.b, env) IN Guard(<<a, b>>, ValConcat(a, b))
      [] e.k = "negate" -> LET a == Eval(e.a, env) IN Guard(<<a>>, ValNeg(a))
      [] e.k = "property" -> LET a == Eval(e.a, env) b == Eval(e.b, env) IN Guard(<<a, b>>, ValIndex(a, b))
      [] e.k = "into_assets" -> LET a == Eval(e.a, env) IN Guard(<<a>>, IntoAssets(a))
      [] e.k = "into_datum" -> LET a == Eval(e.a, env) IN Guard(<<a>>, IntoDatum(a))
      [] e.k = "into_script" -> Unspec
      [] e.k = "c_tip_slot" -> Num(env.cfg.slot)
      [] e.k = "c_script_address" -> LET a == Eval(e.a, env) IN Guard(<<a>>, ScriptAddress(a, env.cfg))
      [] e.k = "c_slot_to_time" -> LET a == Eval(e.a, env) IN Guard(<<a>>, SlotToTime(a, env.cfg))
      [] e.k = "c_time_to_slot" -> LET a == Eval(e.a, env) IN Guard(<<a>>, TimeToSlot(a, env.cfg))
      [] e.k = "c_min_utxo" -> LET a == Eval(e.a, env) IN Guard(<<a>>, MinUtxo(a, env.cfg))
      [] e.k = "adhoc" -> LET ds == FlatMap(LAMBDA d : <<[key |-> d.key, val |-> Eval(d.val, env)]>>, e.data)
                          IN  Guard(FlatMap(LAMBDA d : <<d.val>>, ds), [k |-> "adhoc", name |-> e.name, data |-> ds])

\* the evaluated transaction: a sequence of values, slot by slot, in TxKids order
EvalTx(t, env) == EvalSeq(TxKids(t), env)
NormTx(t) == FlatMap(LAMBDA x : <<Norm(x)>>, TxKids(t))
=============================================================================
