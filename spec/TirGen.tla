------------------------------- MODULE TirGen -------------------------------
(***************************************************************************)
(* Generators of IR terms and templates, shared by the MC_* modules.         *)
(*  - a TYPED universe (IntE, AssetE, BytesE, AddrE, DatumE by depth) of      *)
(*    expressions whose meaning is ordinary arithmetic, used where an exact   *)
(*    oracle is needed (C07, C11 identical-application);                      *)
(*  - CONTEXTS WITH ONE HOLE: every node type x every child position of the   *)
(*    data model, used where every position must be reached (C06, C11, C14);  *)
(*  - template skeletons with one varied slot.                                *)
(***************************************************************************)
EXTENDS Tir

B(bs) == [k |-> "bytes", v |-> bs]
S(bs) == [k |-> "string", v |-> bs]
H28 == [i \in 1..28 |-> 200 + (i % 7)]                 \* a 28-byte script hash
Hash28 == [k |-> "hash", v |-> H28]
PolicyA == B([i \in 1..28 |-> 17])
A0 == <<96>> \o [i \in 1..28 |-> 33] \o [i \in 1..28 |-> 44]   \* testnet base address (key/key)
A1 == <<96>> \o [i \in 1..28 |-> 55] \o [i \in 1..28 |-> 66]
Addr(a) == [k |-> "address", v |-> a]
PV(n, ty) == [k |-> "p_value", name |-> n, ty |-> ty]
Fees == [k |-> "p_fees"]
N(i) == Num(FromInt(i))
Bin(k, a, b) == [k |-> k, a |-> a, b |-> b]
Un(k, a) == [k |-> k, a |-> a]
Struct(c, fs) == [k |-> "struct", ctor |-> c, fields |-> fs]
AssetsOf(p, n, amt) == [k |-> "assets", items |-> <<[policy |-> p, name |-> n, amount |-> amt]>>]
Ada(amt) == AssetsOf(None, None, amt)
Tok(amt) == AssetsOf(PolicyA, B(<<97>>), amt)
Query(addr, minamt, ref, many, coll) ==
    [address |-> addr, min_amount |-> minamt, ref |-> ref, many |-> many, collateral |-> coll]
PIn(name, q) == [k |-> "p_input", name |-> name, q |-> q]
SrcQ == Query(PV("owner", "Address"), Ada(N(1)), None, FALSE, FALSE)
Src == PIn("src", SrcQ)
SrcDatum == Un("into_datum", Src)
SrcAssets == Un("into_assets", Src)

\* ---- typed universes ----------------------------------------------------------
Int0 == {N(7), PV("n", "Int"), [k |-> "c_tip_slot"]}
Int1 == Int0
        \cup {Bin(o, a, b) : o \in {"add", "sub"}, a \in Int0, b \in Int0}
        \cup {Un("negate", a) : a \in Int0}
        \cup {Un("c_slot_to_time", a) : a \in {N(7), PV("n", "Int")}}
        \cup {Un("c_time_to_slot", Un("c_slot_to_time", a)) : a \in {PV("n", "Int")}}
        \cup {Bin("property", Struct(0, <<N(3), PV("n", "Int")>>), N(i)) : i \in {0, 1}}
        \cup {Bin("property", [k |-> "list", items |-> <<N(3), PV("n", "Int")>>], PV("i", "Int")),
              Bin("property", [k |-> "list", items |-> <<N(5), N(6)>>], PV("i", "Int"))}    \* constant list, unresolved index
        \cup {Bin("property", SrcDatum, N(0))}
        \* wrappers that mean nothing (an operation's and a coercion's no-op) around what is still to be evaluated: every
        \* pass has to look inside them
        \cup {Un(w, a) : w \in {"noop", "co_noop"}, a \in {[k |-> "c_tip_slot"], PV("n", "Int"), Un("c_slot_to_time", PV("n", "Int")),
                                                          Bin("add", [k |-> "c_tip_slot"], N(200))}}
        \cup {Bin("add", Un("noop", [k |-> "c_tip_slot"]), N(200)), Bin("add", Un("co_noop", Un("c_slot_to_time", N(7))), PV("n", "Int"))}
Int2 == Int1 \cup {Bin("sub", Bin("sub", a, b), c) : a \in {PV("n", "Int")}, b \in {N(7), [k |-> "c_tip_slot"]}, c \in Int0}
             \cup {Bin("sub", a, Bin("sub", b, c)) : a \in {PV("n", "Int")}, b \in {N(7)}, c \in Int0}
             \cup {Bin("add", Un("negate", a), Bin("property", SrcDatum, N(0))) : a \in Int0}

\* incl. assets whose class (policy or name) is a parameter while the amount is a literal
ParamClass == {AssetsOf(PV("pol", "Bytes"), B(<<97>>), N(2)), AssetsOf(PolicyA, PV("b", "Bytes"), N(3))}
Asset0 == {Ada(N(5)), Ada(PV("n", "Int")), Tok(N(2)), Fees, SrcAssets, Un("c_min_utxo", N(0))} \cup ParamClass
Asset1 == Asset0
          \cup {Bin(o, a, b) : o \in {"add", "sub"}, a \in Asset0, b \in Asset0}
          \cup {Un(w, a) : w \in {"noop", "co_noop"}, a \in {Un("c_min_utxo", N(0)), Fees, SrcAssets, Ada(PV("n", "Int"))}}
          \cup {Bin("add", Un("noop", Un("c_min_utxo", N(0))), Ada(N(5)))}
          \cup {Un("negate", a) : a \in {Tok(N(2)), Fees}}
          \cup {Ada(e) : e \in {Bin("add", PV("n", "Int"), N(7)), Bin("property", SrcDatum, N(0))}}
Asset2 == Asset1 \cup {Bin("sub", Bin("sub", SrcAssets, a), Fees) : a \in Asset0 \ {SrcAssets}}
                 \cup {Bin("sub", SrcAssets, Bin("add", a, Fees)) : a \in {Ada(PV("n", "Int")), Tok(N(2))}}

Bytes0 == {B(<<1, 2>>), PV("b", "Bytes")}
Bytes1 == Bytes0 \cup {Bin("concat", a, b) : a \in Bytes0, b \in Bytes0}
                 \cup {Bin("property", SrcDatum, N(1))}
Str1 == {S(<<104, 105>>), Bin("concat", S(<<104>>), S(<<105>>)), Bin("concat", S(<<110>>), PV("n", "Int"))}

Addr1 == {Addr(A1), PV("owner", "Address"), Un("c_script_address", Hash28)}

Datum1 == {None, Struct(1, <<PV("n", "Int"), PV("b", "Bytes")>>), SrcDatum,
           Struct(0, <<Bin("property", SrcDatum, N(0)), Bin("concat", B(<<9>>), PV("b", "Bytes"))>>),
           [k |-> "list", items |-> <<N(1), PV("n", "Int")>>],
           [k |-> "map", pairs |-> <<[a |-> N(1), b |-> PV("b", "Bytes")]>>],
           \* projections of a literal container some of whose members are not known yet: a map whose earlier key is
           \* pending and will turn out equal to the key looked up (the argument i is 1), a list and a struct whose
           \* other members are pending
           Bin("property", [k |-> "map", pairs |-> <<[a |-> PV("i", "Int"), b |-> B(<<1>>)], [a |-> N(1), b |-> B(<<2>>)]>>], N(1)),
           Bin("property", [k |-> "map", pairs |-> <<[a |-> N(7), b |-> B(<<1>>)], [a |-> PV("i", "Int"), b |-> B(<<2>>)], [a |-> N(1), b |-> B(<<3>>)]>>], N(1)),
           Bin("property", [k |-> "list", items |-> <<PV("n", "Int"), N(7)>>], N(1)),
           Bin("property", Struct(0, <<PV("b", "Bytes"), N(9)>>), PV("i", "Int"))}

\* ---- template skeleton ---------------------------------------------------------
EmptyTx == [fees |-> Fees, references |-> <<>>, inputs |-> <<>>, outputs |-> <<>>,
            validity |-> [k |-> "none"], mints |-> <<>>, burns |-> <<>>, adhoc |-> <<>>,
            collateral |-> <<>>, signers |-> [k |-> "none"], metadata |-> <<>>]
Out(addr, datum, amount) == [address |-> addr, datum |-> datum, amount |-> amount, optional |-> FALSE]
BaseTx == [EmptyTx EXCEPT !.inputs = <<[name |-> "src", utxos |-> Src, redeemer |-> None]>>,
                          !.outputs = <<Out(PV("owner", "Address"), None, Ada(N(5)))>>]

\* one slot of the skeleton varied, everything else default
SlotKinds == {"out_amount", "out_datum", "out_address", "since", "until", "mint_amount", "mint_redeemer",
              "burn_amount", "meta_value", "meta_key", "input_redeemer", "min_amount", "signer",
              "withdraw_amount", "withdraw_credential", "reference", "second_out"}
SlotUniverse(s, d) ==
    CASE s \in {"out_amount", "min_amount", "second_out"} -> IF d = 0 THEN Asset0 ELSE IF d = 1 THEN Asset1 ELSE Asset2
      [] s \in {"since", "until", "withdraw_amount", "meta_key"} -> IF d = 0 THEN Int0 ELSE IF d = 1 THEN Int1 ELSE Int2
      [] s \in {"out_datum", "mint_redeemer", "input_redeemer"} -> Datum1
      [] s \in {"out_address", "withdraw_credential", "signer"} -> Addr1
      [] s \in {"mint_amount", "burn_amount"} -> {Tok(e) : e \in (IF d = 0 THEN Int0 ELSE Int1) \ {Un("negate", x) : x \in Int0}}
      [] s = "meta_value" -> (IF d = 0 THEN Bytes0 ELSE Bytes1) \cup Str1 \cup Int0
      [] s = "reference" -> {[k |-> "utxo_refs", refs |-> <<[txid |-> <<7, 7>>, index |-> 1]>>], PV("r", "UtxoRef")}

WithSlot(s, e) ==
    CASE s = "out_amount"  -> [BaseTx EXCEPT !.outputs = <<Out(PV("owner", "Address"), None, e)>>]
      [] s = "second_out"  -> [BaseTx EXCEPT !.outputs = Append(@, Out(Addr(A1), None, e))]
      [] s = "out_datum"   -> [BaseTx EXCEPT !.outputs = <<Out(PV("owner", "Address"), e, Ada(N(5)))>>]
      [] s = "out_address" -> [BaseTx EXCEPT !.outputs = <<Out(e, None, Ada(N(5)))>>]
      [] s = "since"       -> [BaseTx EXCEPT !.validity = [k |-> "some", since |-> e, until |-> None]]
      [] s = "until"       -> [BaseTx EXCEPT !.validity = [k |-> "some", since |-> None, until |-> e]]
      [] s = "mint_amount" -> [BaseTx EXCEPT !.mints = <<[amount |-> e, redeemer |-> None]>>]
      [] s = "burn_amount" -> [BaseTx EXCEPT !.burns = <<[amount |-> e, redeemer |-> None]>>]
      [] s = "mint_redeemer" -> [BaseTx EXCEPT !.mints = <<[amount |-> Tok(N(1)), redeemer |-> e]>>]
      [] s = "meta_value"  -> [BaseTx EXCEPT !.metadata = <<[key |-> N(1), value |-> e]>>]
      [] s = "meta_key"    -> [BaseTx EXCEPT !.metadata = <<[key |-> e, value |-> B(<<1>>)]>>]
      [] s = "input_redeemer" -> [BaseTx EXCEPT !.inputs = <<[name |-> "src", utxos |-> Src, redeemer |-> e]>>]
      [] s = "min_amount"  -> [BaseTx EXCEPT !.inputs = <<[name |-> "src", redeemer |-> None,
                                   utxos |-> PIn("src", Query(PV("owner", "Address"), e, None, FALSE, FALSE))]>>]
      [] s = "signer"      -> [BaseTx EXCEPT !.signers = [k |-> "some", items |-> <<e>>]]
      [] s = "withdraw_amount" -> [BaseTx EXCEPT !.adhoc = <<[name |-> "withdrawal",
                                   data |-> <<[key |-> "amount", val |-> e], [key |-> "credential", val |-> PV("owner", "Address")],
                                              [key |-> "redeemer", val |-> None]>>]>>]
      [] s = "withdraw_credential" -> [BaseTx EXCEPT !.adhoc = <<[name |-> "withdrawal",
                                   data |-> <<[key |-> "amount", val |-> N(3)], [key |-> "credential", val |-> e],
                                              [key |-> "redeemer", val |-> None]>>]>>]
      [] s = "reference"   -> [BaseTx EXCEPT !.references = <<e>>]

\* ---- the environment the typed universe is evaluated in ---------------------------
SrcUtxo == [ref |-> [txid |-> [i \in 1..32 |-> 9], index |-> 0], address |-> A0,
            assets |-> <<[c |-> Naked, n |-> FromInt(5000000)],
                         [c |-> Defined(PolicyA.v, <<97>>), n |-> FromInt(10)]>>,
            datum |-> Struct(0, <<N(11), B(<<5, 6>>)>>)]
StdEnv == [args |-> [n |-> N(42), b |-> B(<<3, 4>>), i |-> N(1), owner |-> Addr(A0), pol |-> PolicyA,
                     r |-> [k |-> "utxo_refs", refs |-> <<[txid |-> <<8, 8>>, index |-> 2]>>]],
           inputs |-> [src |-> [k |-> "utxo_set", utxos |-> <<SrcUtxo>>]],
           fee |-> FromInt(170000),
           cfg |-> [slot |-> FromInt(1000), ts |-> FromInt(1700000), network |-> 0, cpb |-> 4310,
                    mem |-> [k |-> "none"]]]

\* ---- contexts with one hole (every node type x child position of the data model) ------
Src2 == PIn("src2", Query(Addr(A1), None, None, TRUE, FALSE))
HoleLeaves ==
    [value_param |-> PV("p1", "Int"), env_param |-> PV("e1", "Bytes"), party_param |-> PV("party", "Address"),
     input_plain |-> Src2, input_assets |-> Un("into_assets", Src2), input_datum |-> Un("into_datum", Src2),
     fees |-> Fees, compiler_over_param |-> Un("c_slot_to_time", PV("p2", "Int")),
     nested_query_param |-> PIn("src3", Query(PV("party", "Address"), Ada(PV("p1", "Int")), None, FALSE, FALSE))]
LeafKinds == DOMAIN HoleLeaves

WrapKinds == {"id", "list_first", "list_second", "map_key", "map_val", "tuple_a", "tuple_b", "struct_field",
              "asset_policy", "asset_name", "asset_amount", "p_set", "query_address", "query_min_amount",
              "query_ref", "add_a", "add_b", "sub_a", "sub_b", "concat_a", "concat_b", "negate", "noop",
              "property_obj", "property_index", "c_script_address", "c_min_utxo", "c_slot_to_time",
              "c_time_to_slot", "co_noop", "into_assets", "into_datum", "adhoc_val"}
Wrap(w, x) ==
    CASE w = "id" -> x
      [] w = "list_first" -> [k |-> "list", items |-> <<x>>]
      [] w = "list_second" -> [k |-> "list", items |-> <<N(1), x>>]
      [] w = "map_key" -> [k |-> "map", pairs |-> <<[a |-> x, b |-> N(1)]>>]
      [] w = "map_val" -> [k |-> "map", pairs |-> <<[a |-> N(1), b |-> x]>>]
      [] w = "tuple_a" -> Bin("tuple", x, N(1))
      [] w = "tuple_b" -> Bin("tuple", N(1), x)
      [] w = "struct_field" -> Struct(2, <<N(1), x>>)
      [] w = "asset_policy" -> AssetsOf(x, B(<<97>>), N(1))
      [] w = "asset_name" -> AssetsOf(PolicyA, x, N(1))
      [] w = "asset_amount" -> AssetsOf(PolicyA, B(<<97>>), x)
      [] w = "p_set" -> Un("p_set", x)
      [] w = "query_address" -> PIn("q1", Query(x, None, None, FALSE, FALSE))
      [] w = "query_min_amount" -> PIn("q1", Query(Addr(A1), x, None, FALSE, FALSE))
      [] w = "query_ref" -> PIn("q1", Query(None, None, x, FALSE, FALSE))
      [] w = "add_a" -> Bin("add", x, None)
      [] w = "add_b" -> Bin("add", None, x)
      [] w = "sub_a" -> Bin("sub", x, None)
      [] w = "sub_b" -> Bin("sub", None, x)
      [] w = "concat_a" -> Bin("concat", x, None)
      [] w = "concat_b" -> Bin("concat", None, x)
      [] w = "negate" -> Un("negate", x)
      [] w = "noop" -> Un("noop", x)
      [] w = "property_obj" -> Bin("property", x, N(0))
      [] w = "property_index" -> Bin("property", [k |-> "list", items |-> <<N(5), N(6)>>], x)
      [] w = "c_script_address" -> Un("c_script_address", x)
      [] w = "c_min_utxo" -> Un("c_min_utxo", x)
      [] w = "c_slot_to_time" -> Un("c_slot_to_time", x)
      [] w = "c_time_to_slot" -> Un("c_time_to_slot", x)
      [] w = "co_noop" -> Un("co_noop", x)
      [] w = "into_assets" -> Un("into_assets", x)
      [] w = "into_datum" -> Un("into_datum", x)
      [] w = "adhoc_val" -> [k |-> "adhoc", name |-> "custom", data |-> <<[key |-> "x", val |-> x]>>]

TxSlots == {"fees", "reference", "input_utxos", "input_redeemer", "output_address", "output_datum",
            "output_amount", "validity_since", "validity_until", "mint_amount", "mint_redeemer",
            "burn_amount", "burn_redeemer", "adhoc_val", "collateral", "signer", "metadata_key",
            "metadata_value"}
InSlot(s, e) ==
    CASE s = "fees" -> [EmptyTx EXCEPT !.fees = e]
      [] s = "reference" -> [EmptyTx EXCEPT !.references = <<e>>]
      [] s = "input_utxos" -> [EmptyTx EXCEPT !.inputs = <<[name |-> "i", utxos |-> e, redeemer |-> None]>>]
      [] s = "input_redeemer" -> [EmptyTx EXCEPT !.inputs = <<[name |-> "src", utxos |-> Src, redeemer |-> e]>>]
      [] s = "output_address" -> [EmptyTx EXCEPT !.outputs = <<Out(e, None, Ada(N(5)))>>]
      [] s = "output_datum" -> [EmptyTx EXCEPT !.outputs = <<Out(Addr(A1), e, Ada(N(5)))>>]
      [] s = "output_amount" -> [EmptyTx EXCEPT !.outputs = <<Out(Addr(A1), None, e)>>]
      [] s = "validity_since" -> [EmptyTx EXCEPT !.validity = [k |-> "some", since |-> e, until |-> None]]
      [] s = "validity_until" -> [EmptyTx EXCEPT !.validity = [k |-> "some", since |-> None, until |-> e]]
      [] s = "mint_amount" -> [EmptyTx EXCEPT !.mints = <<[amount |-> e, redeemer |-> None]>>]
      [] s = "mint_redeemer" -> [EmptyTx EXCEPT !.mints = <<[amount |-> Tok(N(1)), redeemer |-> e]>>]
      [] s = "burn_amount" -> [EmptyTx EXCEPT !.burns = <<[amount |-> e, redeemer |-> None]>>]
      [] s = "burn_redeemer" -> [EmptyTx EXCEPT !.burns = <<[amount |-> Tok(N(1)), redeemer |-> e]>>]
      [] s = "adhoc_val" -> [EmptyTx EXCEPT !.adhoc = <<[name |-> "custom", data |-> <<[key |-> "a", val |-> N(1)], [key |-> "b", val |-> e]>>]>>]
      [] s = "collateral" -> [EmptyTx EXCEPT !.collateral = <<[utxos |-> e]>>]
      [] s = "signer" -> [EmptyTx EXCEPT !.signers = [k |-> "some", items |-> <<e>>]]
      [] s = "metadata_key" -> [EmptyTx EXCEPT !.metadata = <<[key |-> e, value |-> N(1)]>>]
      [] s = "metadata_value" -> [EmptyTx EXCEPT !.metadata = <<[key |-> N(1), value |-> e]>>]

Src2Utxo == [SrcUtxo EXCEPT !.ref = [txid |-> [i \in 1..32 |-> 8], index |-> 1], !.address = A1]
ClosureEnv == [StdEnv EXCEPT
                 !.args = [n |-> N(42), b |-> B(<<3, 4>>), i |-> N(1), owner |-> Addr(A0), p1 |-> N(3),
                           e1 |-> B(<<7>>), party |-> Addr(A0), p2 |-> N(9)],
                 !.inputs = [src |-> [k |-> "utxo_set", utxos |-> <<SrcUtxo>>],
                             src2 |-> [k |-> "utxo_set", utxos |-> <<Src2Utxo>>],
                             src3 |-> [k |-> "utxo_set", utxos |-> <<Src2Utxo>>],
                             q1 |-> [k |-> "utxo_set", utxos |-> <<Src2Utxo>>],
                             i |-> [k |-> "utxo_set", utxos |-> <<Src2Utxo>>]]]

RECURSIVE WrapAll(_, _, _)
WrapAll(ws, i, x) == IF i = 0 THEN x ELSE WrapAll(ws, i - 1, Wrap(ws[i], x))

\* ---- constant leaves for the wire format (every leaf variant, boundary contents) ---------
WireLeaves ==
    [none |-> None, empty_list |-> [k |-> "list", items |-> <<>>], empty_bytes |-> B(<<>>),
     bytes64 |-> B([i \in 1..64 |-> i]), zero |-> N(0), minus_one |-> N(-1),
     i128_max |-> Num(I128Max), i128_min |-> Num(I128Min), two64 |-> Num(Two64), minus_two63 |-> Num(I64Min),
     bool_true |-> [k |-> "bool", flag |-> TRUE], bool_false |-> [k |-> "bool", flag |-> FALSE],
     empty_string |-> S(<<>>), utf8_string |-> S(<<195, 169, 226, 130, 172>>),
     address |-> Addr(A0), hash |-> Hash28,
     utxo_refs |-> [k |-> "utxo_refs", refs |-> <<[txid |-> <<>>, index |-> 0], [txid |-> [i \in 1..32 |-> 255], index |-> 65535]>>],
     no_refs |-> [k |-> "utxo_refs", refs |-> <<>>],
     utxo_set |-> [k |-> "utxo_set", utxos |-> <<SrcUtxo>>], empty_utxo_set |-> [k |-> "utxo_set", utxos |-> <<>>],
     zero_asset |-> Ada(N(0)), two_assets |-> [k |-> "assets", items |-> <<[policy |-> None, name |-> None, amount |-> N(1)],
                                                    [policy |-> PolicyA, name |-> S(<<97>>), amount |-> Num(I128Min)]>>],
     unit_struct |-> Struct(0, <<>>), big_ctor |-> Struct(139, <<N(1)>>),
     empty_map |-> [k |-> "map", pairs |-> <<>>], empty_adhoc |-> [k |-> "adhoc", name |-> "", data |-> <<>>],
     tip_slot |-> [k |-> "c_tip_slot"], into_script |-> Un("into_script", B(<<1>>)),
     typed_params |-> [k |-> "list", items |-> <<PV("a", "Undefined"), PV("b", "Unit"), PV("c", "Bool"), PV("d", "Utxo"),
                        PV("e", "UtxoRef"), PV("f", "AnyAsset"), PV("g", "List"), PV("h", "Map"), PV("i", "Custom:My_Type")>>],
     collateral_query |-> PIn("c", Query(None, None, None, TRUE, TRUE))]
WireLeafKinds == DOMAIN WireLeaves
=============================================================================
