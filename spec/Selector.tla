------------------------------ MODULE Selector ------------------------------
(***************************************************************************)
(* Input selection (tx3_resolver::inputs) as a contract.                     *)
(*                                                                         *)
(* A store maps UTxO references to [addr, assets]; assets is a function from *)
(* asset classes to positive amounts.  A query states constraints:           *)
(*   address (NoAddr = none), refs (set, {} = none), min (assets, may be     *)
(*   empty), many, collateral.                                               *)
(* The module is parametric in the number domain (native integers in the     *)
(* model, BigInt in trace validation) and in what a token class is.          *)
(*                                                                         *)
(*  Cand(store, q)   the candidates the property speaks of                   *)
(*  SoundSel(...)    what a bound set must satisfy                           *)
(*  Resolvable(...)  whether some sound selection exists among given refs    *)
(* The contract does NOT say which sound selection is picked.                *)
(***************************************************************************)
EXTENDS FiniteSets, Naturals

CONSTANTS NGe(_, _),      \* >= on amounts
          NAdd(_, _),     \* + on amounts
          NZero,
          NIsPos(_),      \* > 0
          IsToken(_),     \* class is a (policy, name) token, i.e. searchable in the store
          Lovelace,       \* the lovelace class
          NoAddr

AGet(a, c) == IF c \in DOMAIN a THEN a[c] ELSE NZero
Covers(a, t) == \A c \in DOMAIN t : NIsPos(t[c]) => NGe(AGet(a, c), t[c])

RECURSIVE ASum(_, _)
ASum(store, S) ==
    IF S = {} THEN [c \in {} |-> NZero]
    ELSE LET r == CHOOSE r \in S : TRUE
             rest == ASum(store, S \ {r})
             a == store[r].assets
         IN  [c \in DOMAIN a \cup DOMAIN rest |-> NAdd(AGet(a, c), AGet(rest, c))]

PureLovelace(a) == \A c \in DOMAIN a : c = Lovelace \/ ~NIsPos(a[c])

TokenReq(q) == {c \in DOMAIN q.min : IsToken(c) /\ NIsPos(q.min[c])}
Holders(store, c) == {r \in DOMAIN store : NIsPos(AGet(store[r].assets, c))}
AtAddr(store, q) == {r \in DOMAIN store : q.address = NoAddr \/ store[r].addr = q.address}

\* no address, no reference and no token to search by: an error, never a selection
TooBroad(q) == q.address = NoAddr /\ q.refs = {} /\ TokenReq(q) = {}

\* the UTxOs meeting the address and reference constraints; for a query without
\* `from`: those referenced, or (no reference either) those holding every requested token
Cand(store, q) ==
    IF q.address # NoAddr
    THEN IF q.refs # {} THEN AtAddr(store, q) \cap q.refs ELSE AtAddr(store, q)
    ELSE IF q.refs # {} THEN q.refs \cap DOMAIN store
    ELSE {r \in DOMAIN store : \A c \in TokenReq(q) : r \in Holders(store, c)}

\* individually eligible members
Eligible(store, q, avail) ==
    {r \in avail \cap DOMAIN store :
        /\ (q.address # NoAddr => store[r].addr = q.address)
        /\ (q.refs # {} => r \in q.refs)
        /\ (q.collateral => PureLovelace(store[r].assets))}

SoundSel(store, q, S) ==
    /\ S # {} /\ S \subseteq DOMAIN store
    /\ Eligible(store, q, S) = S
    /\ (~q.many => Cardinality(S) = 1)
    /\ Covers(ASum(store, S), q.min)

\* why a bound set is not sound (first reason), or "ok"
Unsound(store, q, S) ==
    IF S = {} THEN "empty"
    ELSE IF ~(S \subseteq DOMAIN store) THEN "unknown-utxo"
    ELSE IF q.address # NoAddr /\ \E r \in S : store[r].addr # q.address THEN "address"
    ELSE IF q.refs # {} /\ ~(S \subseteq q.refs) THEN "ref"
    ELSE IF q.collateral /\ \E r \in S : ~PureLovelace(store[r].assets) THEN "collateral"
    ELSE IF ~q.many /\ Cardinality(S) # 1 THEN "single"
    ELSE IF ~Covers(ASum(store, S), q.min) THEN "cover"
    ELSE "ok"

\* some sound selection exists within avail (amounts are non-negative, so for a
\* multi-UTxO input the whole eligible set is the best attempt)
Resolvable(store, q, avail) ==
    LET el == Eligible(store, q, avail)
    IN  IF q.many THEN el # {} /\ Covers(ASum(store, el), q.min)
        ELSE \E r \in el : Covers(store[r].assets, q.min)

\* the space the pinned code falls back to when the intersection is smaller than the
\* window: the union of the per-constraint subsets (deviation TakeWithUnionFallback)
UnionSpace(store, q) ==
    (IF q.address # NoAddr THEN AtAddr(store, q) ELSE {}) \cup (q.refs \cap DOMAIN store)
=============================================================================
