----------------------------- MODULE ResolveLoop -----------------------------
(***************************************************************************)
(* The resolve loop (tx3_resolver::resolve_tx) and the compiler instance's    *)
(* memory (tx3_cardano::Compiler.latest_tx_body) as relations between what    *)
(* each round observes.                                                       *)
(*                                                                         *)
(* Round r is evaluated with fee_in = the fee reported by round r-1 (0 for    *)
(* r = 1).  It produces a body whose fee field is fee_in, a payload of `len`  *)
(* bytes and reports  a*len + b + margin.  The loop stops when a round         *)
(* repeats the previous one, or after max(rounds,3)+2 rounds.  The result is   *)
(* a fixed point iff its body fee equals its reported fee.                     *)
(***************************************************************************)
EXTENDS BigInt, Sequences

DefaultMargin == 200000
Margin(cfg) == IF cfg.extra.k = "none" THEN FromInt(DefaultMargin) ELSE cfg.extra.n

LinearFee(cfg, len) == Add(Add(MulInt(FromInt(len), cfg.a), FromInt(cfg.b)), Margin(cfg))

MaxEvals(cfg) == (IF cfg.rounds > 3 THEN cfg.rounds ELSE 3) + 2

\* lovelace demanded by min_utxo(i) in a round: sized from the previous body when the
\* compiler remembers one, from a 197-byte default otherwise
MinUtxoBytesDefault == 197
MinUtxoOverhead == 160
MinUtxoFromSize(cfg, size) == MulInt(FromInt(size + MinUtxoOverhead), cfg.cpb)
MinUtxoDefault(cfg) == MulInt(FromInt(MinUtxoBytesDefault), cfg.cpb)

IsFixedPoint(res) == Eq(res.body_fee, res.fee)
=============================================================================
