-------------------------------- MODULE Ledger --------------------------------
(***************************************************************************)
(* The abstract Conway transaction the properties talk about: field ranges    *)
(* (C02), the ledger's canonical orderings and redeemer pointers (C08) and    *)
(* well-formedness of an emitted payload (C10).                               *)
(***************************************************************************)
EXTENDS PlutusData

\* ---- field ranges (C02) ---------------------------------------------------------
InU64(n) == FitsU64(n)
InI64(n) == FitsI64(n)
InMetaInt(n) == Ge(n, Neg(Two64)) /\ Lt(n, Two64)

\* ---- byte-string order, as the ledger sorts map keys ------------------------------
RECURSIVE BytesLessFrom(_, _, _)
BytesLessFrom(a, b, i) ==
    IF i > Len(a) THEN i <= Len(b)          \* a is a proper prefix of b
    ELSE IF i > Len(b) THEN FALSE
    ELSE IF a[i] < b[i] THEN TRUE
    ELSE IF a[i] > b[i] THEN FALSE
    ELSE BytesLessFrom(a, b, i + 1)
BytesLess(a, b) == BytesLessFrom(a, b, 1)
RefLess(r, s) == BytesLess(r.txid, s.txid) \/ (r.txid = s.txid /\ r.index < s.index)

\* position of x among the members of S under a strict order (0-based)
PosAmong(x, S, Less(_, _)) == Cardinality({y \in S : Less(y, x)})

SpendTag == 0
MintTag == 1
RewardTag == 3

\* ---- well-formedness of an emitted payload (C10), over the projection's facts -----
WellFormedReason(d, network) ==
    IF ~d.decodes THEN "not-conway"
    ELSE IF ~d.hash_ok THEN "hash"
    ELSE IF d.aux_present # d.aux_hash_present THEN "aux-hash-presence"
    ELSE IF ~d.aux_hash_ok THEN "aux-hash"
    ELSE IF d.redeemers_present # d.script_data_hash_present THEN "script-data-hash-presence"
    ELSE IF d.script_data_hash_ok = "no" THEN "script-data-hash"
    ELSE IF d.empties # <<>> THEN "empty-entry"
    ELSE IF d.dups # <<>> THEN "duplicate-entry"
    ELSE IF \E i \in DOMAIN d.mint : IsZero(d.mint[i].n) THEN "zero-mint"
    ELSE IF d.network_id.k = "none" \/ d.network_id.n # FromInt(network) THEN "network-id"
    ELSE IF ~d.valid_flag THEN "valid-flag"
    ELSE "ok"
=============================================================================
