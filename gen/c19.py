from .frontend import check_c19 as check, replay  # noqa
