from .mutants import check, replay  # noqa
