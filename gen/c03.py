from .selector import check_c03 as check, replay  # noqa
