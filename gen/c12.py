from .frontend import check_c12 as check, replay  # noqa
