from .langcheck import check_c10 as check, replay  # noqa
