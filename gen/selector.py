"""C03 (selection honours every constraint and finds a match if one exists) and
C04 (no UTxO is spent through two input blocks)."""
import copy
import random

from . import core
from .core import I

CFG = """CONSTANTS
  MaxUtxos = {maxu}
  MaxL = {maxl}
  MaxT1 = {maxt1}
  MaxT2 = {maxt2}
  NBlocks = {nblocks}
  WMax = {wmax}
  Explore = {explore}
  UnionFallback = {fallback}
  Overlap = {overlap}
INIT Init
NEXT Next
INVARIANTS Sound Disjoint Complete TooBroadOnlyWhenUnconstrained {emit}
PROPERTY IgnoreMonotone
CHECK_DEADLOCK FALSE
"""

P1 = [0x11] * 28
P2 = [0x22] * 28
CLASS = {"L": {"k": "naked"}, "T1": {"k": "defined", "policy": P1, "name": [0x74, 0x31]},
         "T2": {"k": "defined", "policy": P2, "name": [0x74, 0x32]}}
ADDR = {"A": [0x60] + [0xA1] * 28, "B": [0x60] + [0xB2] * 28, "none": [-1]}
NOADDR = [-1]


def ref_of(r):
    """r1 and r2 are outputs 1 and 0 of one transaction, r3 is output 1 of the next one (r1 and r3 share the index), ..."""
    n = int(r[1:])
    return {"txid": [(n + 1) // 2] * 32, "index": n % 2}


def entries(assets):
    return [{"c": CLASS[c], "n": I(n)} for c, n in sorted(assets.items())]


def realise(case, names):
    """model case -> (store utxos, queries) in the driver/trace vocabulary"""
    store = []
    for r, u in sorted(case["store"].items()):
        store.append({"ref": ref_of(r), "address": ADDR[u["addr"]], "assets": entries(u["assets"]),
                      "datum": {"k": "none"}})
    qs = []
    for i, q in enumerate(case["queries"]):
        mn = q["min"] if isinstance(q["min"], dict) else {}
        qs.append({"name": "collateral" if q["collateral"] else names[i], "address": ADDR[q["address"]],
                   "refs": [ref_of(r) for r in q["refs"]], "min": entries(mn), "has_min": bool(mn) or q["min"] != [],
                   "many": q["many"], "collateral": q["collateral"]})
    return store, qs


def split_entries(mn):
    """the same requirement stated with a class named twice (n = n // 2 + the rest), the halves apart in the list: an
    asset list is read as the sum of its entries"""
    first, rest = [], []
    for e in mn:
        n = int(e["n"]["I"])
        if n >= 2:
            first.append({"c": e["c"], "n": I(n // 2)})
            rest.append({"c": e["c"], "n": I(n - n // 2)})
        else:
            first.append(e)
    return first + rest


def driver_query(q, split=False):
    mn = q["min"] if q["has_min"] else None
    d = {"name": q["name"], "address": None if q["address"] == NOADDR else q["address"], "refs": q["refs"],
         "min": split_entries(mn) if (split and mn) else mn, "many": q["many"], "collateral": q["collateral"]}
    return d


def trace_events(store, qs, events):
    ordered = sorted(qs, key=lambda q: q["name"])
    head = [{"ev": "Store", "utxos": [{"ref": u["ref"], "address": u["address"], "assets": u["assets"]} for u in store]},
            {"ev": "Queries", "items": [{k: q[k] for k in ("name", "address", "refs", "min", "many", "collateral")} for q in ordered]}]
    return head + [e for e in events if e["ev"] != "Narrow"]


def usable(qs):
    """the resolver identifies blocks by name: two blocks with one name collapse (collateral twice)"""
    names = [q["name"] for q in qs]
    return len(set(names)) == len(names)


def shape_sig(d):
    s = d.get("shape")
    if not isinstance(s, dict):
        return ""
    return "+".join(k for k in ("from", "ref", "min", "many", "collateral") if s.get(k)) or "unconstrained"


def sig_of(b):
    d = b["detail"]
    if b["why"] == "panic":
        return f"panic|{d.get('site')}|{d.get('msg')}"
    if b["why"] == "unsound":
        return f"unsound:{d.get('reason')}|{shape_sig(d)}"
    if b["why"] == "error":
        return f"error|{d.get('kind')}"
    return f"{b['why']}|{shape_sig(d)}"


C03_REASONS = {"unsound", "deviation:TakeWithUnionFallback", "window-outside-candidates", 
               "incomplete", "too-broad-unexpected", "not-resolved-but-too-broad", "error", "panic", "bound-not-fetched"}
C04_REASONS = {"overlap", "ignored-refetched", "dup-inputs", "inputs-mismatch", "inputs-count", "collateral-mismatch", "panic"}


def random_case(rng, big):
    naddr = rng.randint(1, 3)
    addrs = [[0x60] + [rng.randint(0, 255)] * 28 for _ in range(naddr)]
    pols = [[rng.randint(0, 255)] * 28 for _ in range(2)]
    classes = [{"k": "naked"}, {"k": "defined", "policy": pols[0], "name": [1]}, {"k": "defined", "policy": pols[1], "name": []}]
    n = rng.randint(51, 130) if big else rng.randint(1, 50)
    amt = lambda: rng.choice([1, 2, 5, 1000, 2_000_000, 2**32, 2**62, rng.randint(1, 2**62)])  # noqa
    store = []
    for i in range(n):
        a = [{"c": classes[0], "n": I(amt())}]
        for c in classes[1:]:
            if rng.random() < 0.3:
                a.append({"c": c, "n": I(amt())})
        # neighbours share a transaction id (outputs 0 and 1 of one transaction), every other UTxO shares its output
        # index with UTxOs of other transactions, and some UTxOs are equal-valued twins of the one before them
        if store and rng.random() < 0.25:
            a = copy.deepcopy(store[-1]["assets"])
        t = i // 2
        store.append({"ref": {"txid": [t % 256] * 31 + [t // 256], "index": i % 2},
                      "address": store[-1]["address"] if store and rng.random() < 0.5 else rng.choice(addrs), "assets": a, "datum": {"k": "none"}})
    qs = []
    nb = rng.randint(1, 4)
    names = rng.sample(["zeta", "alpha", "mid", "beta", "omega"], nb)
    for i in range(nb):
        coll = rng.random() < 0.15 and not any(q["collateral"] for q in qs)
        refs = []
        r = rng.random()
        if r < 0.25:
            refs = [copy.deepcopy(rng.choice(store)["ref"]) for _ in range(rng.randint(1, 3))]
        elif r < 0.3:
            refs = [{"txid": [0xEE] * 32, "index": 9}]
        mn = []
        if rng.random() < 0.8:
            mn.append({"c": classes[0], "n": I(rng.choice([0, 1, 1000, 3_000_000, 2**33, 2**62]))})
        for c in classes[1:]:
            if rng.random() < 0.25:
                mn.append({"c": c, "n": I(rng.choice([1, 2, 1000, 2**40]))})
        qs.append({"name": "collateral" if coll else names[i],
                   "address": rng.choice(addrs + [NOADDR]) if rng.random() < 0.9 else NOADDR,
                   "refs": refs, "min": mn, "has_min": bool(mn) or rng.random() < 0.5,
                   "many": rng.random() < 0.5, "collateral": coll})
    return store, qs


def run_cases(cases, tag, repeat, end_to_end, nproc, split=None):
    jobs = []
    for i, (store, qs) in enumerate(cases):
        # (every third case states its thresholds with each class named twice)
        sp = (i % 3 == 2) if split is None else split
        jobs.append({"id": i, "cmd": "select", "store": store, "queries": [driver_query(q, split=sp) for q in qs],
                     "repeat": repeat, "end_to_end": end_to_end,
                     "cfg": {"network": 0, "a": 44, "b": 155381, "cpb": 4310, "cost_models": "all"}})
    results = core.run_driver(jobs)
    evs = []
    for i, (store, qs) in enumerate(cases):
        r = results[i]
        if "events" not in r:
            evs.append(trace_events(store, qs, [{"ev": "Error", "kind": "panic", "site": "abort", "msg": str(r)[:80]}]))
        else:
            evs.append(trace_events(store, qs, r["events"]))
    tr = core.tlc_trace("Trace_Selector", evs, tag, nproc=nproc)
    tr.kinds = {}
    for e in evs:
        for x in e:
            k = x["ev"] + (":" + x["outcome"] if x["ev"] == "TxInputs" else "")
            if x["ev"] in ("Resolved", "NotResolved", "Error", "TxInputs"):
                tr.kinds[k] = tr.kinds.get(k, 0) + 1
    return tr, evs


def design_runs(rep, quick):
    # the contract holds on the model with every admissible window/pick
    r = core.tlc_mc("MC_Selector", CFG.format(maxu=3, maxl=2, maxt1=1, maxt2=0, nblocks=2, wmax=2, explore="TRUE",
                                              fallback="FALSE", overlap="TRUE", emit=""),
                    f"{rep.pid}_design", workers=6, timeout=1200, coverage=True)
    rep.add_tlc(r)
    rep.extra["design_states"] = r.distinct
    # vacuity: every action of the conforming machine was taken (the deviation action is disabled here on purpose)
    rep.extra["design_action_coverage"] = r.coverage
    idle = [a for a, (d, g) in r.coverage.items() if g == 0 and a not in ("TakeWithUnionFallback",)]
    if r.coverage and idle:
        raise core.ToolError(f"design model: actions never taken: {idle}")
    # and the pinned code's union fallback breaks Sound on the model
    rd = core.tlc_mc("MC_Selector", CFG.format(maxu=2, maxl=1, maxt1=0, maxt2=0, nblocks=1, wmax=3, explore="TRUE",
                                               fallback="TRUE", overlap="FALSE", emit=""),
                     f"{rep.pid}_dev", workers=4, timeout=600, expect_violation=True)
    rep.notes.append(f"deviation TakeWithUnionFallback: TLC finds a counterexample to {rd.violated} on the model")


def collect(rep, tr, cases, reasons):
    for b in tr.bad:
        if b["why"] not in reasons:
            continue
        store, qs = cases[b["case"]]
        rep.violation(sig_of(b), f"{b['why']} {b['detail']}",
                      {"cmd": "select", "store": store, "queries": qs, "split_thresholds": b["case"] % 3 == 2,
                       "why": b["why"], "detail": b["detail"]})


def check_c03(tier, seed):
    rep = core.Report("C03", tier, seed)
    rep.rule = ("a case is a store and one input query; TLC enumerates canonical stores of <= MaxUtxos UTxOs over 2 addresses "
                "and classes lovelace/T1/T2 with small amounts x every query shape (address none/A/B x ref none/own/other/"
                "dangling x min_amount incl. absent and zero x single/many x input/collateral); a seeded random driver adds "
                "stores of 1..130 UTxOs (beyond the window of 50) with amounts to 2^62, multi-ref and multi-block queries. "
                "Each case is resolved by the real resolver several times (hash order varies). non-trivial: the query "
                "has at least one constraint and the store holds at least one candidate and one non-candidate; distinct "
                "= distinct (store, query) pairs.")
    rep.assumptions = ["TLC 1.8, Json module", "recording UtxoStore in the driver answers narrow_refs/fetch_utxos exactly",
                       "completeness is judged relative to the fetched window when more than 50 candidates exist",
                       "amounts are non-negative (the language cannot express a negative min_amount without arguments)"]
    core.build_driver()
    quick = tier == "quick"
    design_runs(rep, quick)
    g = core.tlc_mc("MC_Selector", CFG.format(maxu=3, maxl=2, maxt1=1, maxt2=0 if quick else 1, nblocks=1, wmax=50,
                                              explore="FALSE", fallback="FALSE", overlap="FALSE", emit="EmitCase"),
                    "c03_gen", workers=6 if quick else 12, timeout=3000, heap="10g")
    rep.add_tlc(g)
    rep.exhaustive = True
    rng = random.Random(seed)
    cases = []
    gcases = list(g.cases)
    if quick:
        # two token classes over tiny stores: tokens held by different UTxOs of one address
        g2 = core.tlc_mc("MC_Selector", CFG.format(maxu=2, maxl=1, maxt1=1, maxt2=1, nblocks=1, wmax=50, explore="FALSE",
                                                   fallback="FALSE", overlap="FALSE", emit="EmitCase"),
                         "c03_gen2", workers=6, timeout=1500, heap="8g")
        rep.add_tlc(g2)
        gcases += g2.cases
    for c in gcases:
        store, qs = realise(c, ["q1"])
        cases.append((store, qs))
    if not quick and len(cases) > 400000:
        rng.shuffle(cases)
        cases = cases[:400000]
        rep.exhaustive = False
        rep.notes.append("enumerated cases sampled down to 400000")
    rep.extra["enumerated_cases"] = len(cases)
    nrand = 1500 if quick else 20000
    rcases = []
    while len(rcases) < nrand:
        c = random_case(rng, big=rng.random() < 0.25)
        if usable(c[1]):
            rcases.append(c)
    rep.extra["random_cases"] = nrand
    allc = cases + rcases
    tr, evs = run_cases(allc, "c03", 2 if quick else 3, False, 8 if quick else 12)
    rep.add_trace(tr)
    rep.extra["outcomes"] = tr.kinds
    rep.evaluations = len(allc) * (2 if quick else 3)
    collect(rep, tr, allc, C03_REASONS)
    for store, qs in allc:
        q = qs[0]
        constrained = q["address"] != NOADDR or q["refs"] or any(e["c"]["k"] == "defined" and int(e["n"]["I"]) > 0 for e in q["min"])
        if constrained and len(store) >= 2:
            rep.distinct.add(core.digest([store, qs]))
    canary(rep, evs, "c03")
    rep.samples = [{"store": allc[100][0], "queries": allc[100][1]}, {"trace_events": evs[100][2:7]},
                   {"random_store_size": len(rcases[0][0]), "queries": rcases[0][1]}]
    return rep.finish()


def pinned_cases(names):
    """blocks that name their UTxO by reference and say nothing else (no address, no threshold), two or three of them,
    pinned to the same UTxO or to different ones, alone or next to an open block that could take the pinned UTxO; kept
    whatever the sampling of the enumerated cases keeps"""
    import itertools
    out = []
    utxo = lambda a, n: {"addr": a, "assets": {"L": n}}  # noqa
    stores = [{"r1": utxo("A", 5)}, {"r1": utxo("A", 5), "r2": utxo("A", 7)}, {"r1": utxo("A", 5), "r2": utxo("B", 5), "r3": utxo("A", 9)}]
    pin = lambda r, many=False: {"address": "none", "refs": [r], "min": [], "many": many, "collateral": False}  # noqa
    opn = lambda a, n, many=False: {"address": a, "refs": [], "min": {"L": n}, "many": many, "collateral": False}  # noqa
    for st in stores:
        rs = sorted(st)
        for a, b in itertools.product(rs, rs):
            out.append({"store": st, "queries": [pin(a), pin(b)]})
            out.append({"store": st, "queries": [pin(a, True), pin(b)]})
            out.append({"store": st, "queries": [pin(a), opn("A", 1), pin(b)]})
            out.append({"store": st, "queries": [opn("A", 1, True), pin(a), pin(b)]})
        for a in rs:
            out.append({"store": st, "queries": [pin(a), dict(pin(a), collateral=True)]})
            out.append({"store": st, "queries": [{"address": "A", "refs": [a], "min": [], "many": False, "collateral": False}, pin(a)]})
    return [realise(c, names) for c in out if usable(realise(c, names)[1])]


def check_c04(tier, seed):
    rep = core.Report("C04", tier, seed)
    rep.rule = ("a case is a store and k overlapping input blocks (same party, same assets, overlapping refs, single/many "
                "mixes, one collateral) named so that name order differs from the order in the template; TLC enumerates "
                "stores x block tuples; a seeded random driver adds 1..4 blocks over stores of up to 130 UTxOs. Each case "
                "goes through inputs::resolve (recording store) and end to end through resolve_tx (recording compiler, "
                "decoded body inputs). non-trivial: at least two non-collateral blocks whose candidate sets intersect; "
                "distinct = distinct (store, blocks) pairs.")
    rep.assumptions = ["TLC 1.8, Json module", "recording UtxoStore and recording Compiler wrapper in the driver",
                       "decoded body inputs come from the driver's own CBOR reader"]
    core.build_driver()
    quick = tier == "quick"
    design_runs(rep, quick)
    g = core.tlc_mc("MC_Selector", CFG.format(maxu=3, maxl=2, maxt1=1, maxt2=0, nblocks=2 if quick else 3, wmax=50,
                                              explore="FALSE", fallback="FALSE", overlap="TRUE", emit="EmitCase"),
                    "c04_gen", workers=6 if quick else 12, timeout=3000, heap="12g",
                    simulate=None)
    rep.add_tlc(g)
    rng = random.Random(seed)
    names3 = ["zeta", "alpha", "mid"]
    cases = []
    for c in g.cases:
        store, qs = realise(c, names3)
        if usable(qs):
            cases.append((store, qs))
    if quick:
        # three blocks over stores of at most two UTxOs, kept where one collateral block sits between two regular
        # blocks in name order (alpha < collateral < mid < zeta): the bookkeeping of what is taken crosses both kinds
        g3 = core.tlc_mc("MC_Selector", CFG.format(maxu=2, maxl=2, maxt1=1, maxt2=0, nblocks=3, wmax=50, explore="FALSE",
                                                   fallback="FALSE", overlap="TRUE", emit="EmitCase"),
                         "c04_gen3", workers=6, timeout=3000, heap="12g")
        rep.add_tlc(g3)
        between = []
        for c in g3.cases:
            coll = [i for i, q in enumerate(c["queries"]) if q["collateral"]]
            if len(coll) == 1 and coll[0] in (0, 2):
                store, qs = realise(c, names3)
                if usable(qs):
                    between.append((store, qs))
        rng.shuffle(between)
        rep.extra["three_block_cases_with_collateral_between"] = min(len(between), 15000)
        cases += between[:15000]
    pinned = pinned_cases(names3)
    rep.extra["pinned_block_cases"] = len(pinned)
    rep.exhaustive = True
    if len(cases) > (75000 if quick else 300000):
        rng.shuffle(cases)
        cases = cases[:(75000 if quick else 300000)]
        rep.exhaustive = False
        rep.notes.append(f"enumerated cases sampled down to {len(cases)}")
    rep.extra["enumerated_cases"] = len(cases)
    nrand = 1500 if quick else 15000
    rcases = []
    while len(rcases) < nrand:
        c = random_case(rng, big=rng.random() < 0.2)
        if usable(c[1]) and len(c[1]) >= 2:
            rcases.append(c)
    allc = cases + rcases + pinned
    tr, evs = run_cases(allc, "c04", 1, True, 8 if quick else 12)
    rep.add_trace(tr)
    rep.extra["outcomes"] = tr.kinds
    rep.evaluations = len(allc) * 2
    collect(rep, tr, allc, C04_REASONS)
    for store, qs in allc:
        if sum(1 for q in qs if not q["collateral"]) >= 2:
            rep.distinct.add(core.digest([store, qs]))
    canary(rep, evs, "c04")
    rep.samples = [{"store": allc[50][0], "queries": allc[50][1]}, {"trace_events": evs[50][2:8]}]
    return rep.finish()


def canary(rep, evs, tag):
    a = None
    for e in evs:
        res = [x for x in e if x["ev"] == "Resolved" and x["bound"] and x["bound"][0]["refs"]]
        st = [x for x in e if x["ev"] == "Store"]
        if res and len(st[0]["utxos"]) >= 2:
            a = copy.deepcopy(e)
            break
    if a is None:
        raise core.ToolError("canary: no resolved case")
    utxos = a[0]["utxos"]
    for x in a:
        if x["ev"] == "Resolved":
            cur = x["bound"][0]["refs"]
            other = [u["ref"] for u in utxos if u["ref"] not in cur]
            x["bound"][0]["refs"] = [{"txid": [0xEE] * 32, "index": 5}]     # a UTxO that does not exist
    tr = core.tlc_trace("Trace_Selector", [a], tag + "_canary", nproc=1)
    if not tr.bad:
        raise core.ToolError("canary not rejected: binding broken")
    rep.extra["canary_rejected"] = True


def replay(doc):
    core.build_driver()
    r = doc["replay"]
    tr, evs = run_cases([(r["store"], r["queries"])], "sel_replay", 3, doc["property"] == "C04", 1, split=bool(r.get("split_thresholds")))
    print(core.json.dumps({"events": evs[0], "bad": tr.bad}, indent=1)[:30000])
    return 1 if tr.bad else 0
