from .langcheck import check_c09 as check, replay  # noqa
