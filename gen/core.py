"""Shared plumbing for the tx3 verification checks.

Python here only serialises, schedules and reports.  Every semantic decision is taken by
TLC: the MC_* modules enumerate cases and check the design, the Trace_* modules decide
whether an execution of the real crates conforms.
"""
import hashlib
import json
import os
import re
import select
import shutil
import subprocess
import sys
import threading
import time

VERIF = os.path.dirname(os.path.dirname(os.path.abspath(__file__)))
SPEC = os.path.join(VERIF, "spec")
OUT = os.path.join(VERIF, "out")
HARNESS = os.path.join(VERIF, "harness")
DRIVER = os.path.join(HARNESS, "target", "debug", "tx3-driver")
# the repository under test; background sweeps may point this at a snapshot (the registered
# checks always run against /repo itself)
REPO = os.environ.get("TX3_REPO", "/repo")
TLA_LIB = ":".join([SPEC, os.path.join(SPEC, "mc"), os.path.join(SPEC, "trace")])


class ToolError(Exception):
    """Anything that is not a verdict about the code: exit status 2."""


def log(*a):
    print(*a, file=sys.stderr, flush=True)


# ----------------------------------------------------------------------------- build
def build_driver():
    """Rebuild tx3-driver from /repo's current working tree (incremental)."""
    lock_src = os.path.join(REPO, "Cargo.lock")
    lock_dst = os.path.join(HARNESS, "Cargo.lock")
    if not os.path.exists(lock_dst):
        shutil.copy(lock_src, lock_dst)
    t0 = time.time()
    env = dict(os.environ, CARGO_NET_OFFLINE="true")
    p = subprocess.run(
        ["cargo", "build", "--offline", "--quiet"],
        cwd=HARNESS, env=env, stdout=subprocess.PIPE, stderr=subprocess.PIPE, text=True,
    )
    if p.returncode != 0:
        errs = "\n".join(l for l in p.stderr.splitlines() if "error" in l.lower())[-4000:]
        raise ToolError("driver build failed:\n" + errs + "\n" + p.stderr[-3000:])
    log(f"[build] tx3-driver ok in {time.time()-t0:.1f}s")


def build_tx3c():
    """Build the tx3c binary from /repo into the harness target dir (never into /repo/target)."""
    t0 = time.time()
    tdir = os.path.join(HARNESS, "target", "repo")
    env = dict(os.environ, CARGO_NET_OFFLINE="true",
               RUSTFLAGS="--cfg tx3_verif --check-cfg cfg(tx3_verif)")
    p = subprocess.run(
        ["cargo", "build", "--offline", "--quiet", "-p", "tx3c", "--target-dir", tdir],
        cwd=REPO, env=env, stdout=subprocess.PIPE, stderr=subprocess.PIPE, text=True,
    )
    if p.returncode != 0:
        raise ToolError("tx3c build failed:\n" + p.stderr[-4000:])
    log(f"[build] tx3c ok in {time.time()-t0:.1f}s")
    return os.path.join(tdir, "debug", "tx3c")


# ----------------------------------------------------------------------------- big ints
BASE = 10000


def big(n):
    n = int(n)
    neg = n < 0
    n = abs(n)
    mag = []
    while n:
        mag.append(n % BASE)
        n //= BASE
    return {"neg": neg and bool(mag), "mag": mag}


def unbig(d):
    n = 0
    for limb in reversed(d["mag"]):
        n = n * BASE + limb
    return -n if d["neg"] else n


def tlcify(v):
    """{"I": "<dec>"} -> BigInt record understood by spec/BigInt.tla."""
    if isinstance(v, dict):
        if set(v.keys()) == {"I"}:
            return big(v["I"])
        return {k: tlcify(x) for k, x in v.items()}
    if isinstance(v, list):
        return [tlcify(x) for x in v]
    if v is None:
        return ""        # (the Json module has no null: an absent text field is the empty text)
    return v


def untlcify(v):
    """BigInt records printed by TLC -> {"I": "<dec>"}."""
    if isinstance(v, dict):
        if set(v.keys()) == {"neg", "mag"}:
            return {"I": str(unbig(v))}
        return {k: untlcify(x) for k, x in v.items()}
    if isinstance(v, list):
        return [untlcify(x) for x in v]
    return v


def I(n):
    return {"I": str(int(n))}


# ----------------------------------------------------------------------------- TLC
def _tlc_env(extra_java=""):
    env = dict(os.environ)
    env["JAVA_TOOL_OPTIONS"] = (
        f"-Xss1g -DTLA-Library={TLA_LIB} {extra_java}".strip()
    )
    return env


_STATS_RE = re.compile(r"(\d+) states generated, (\d+) distinct states found")
_CASE_RE = re.compile(r'^<<"(CASE|VERDICT|INFO)", (".*")>>$')


class TlcResult:
    def __init__(self):
        self.cases = []
        self.info = []
        self.generated = 0
        self.distinct = 0
        self.rc = None
        self.violated = None      # name of violated invariant, if any
        self.tail = ""
        self.wall = 0.0
        self.coverage = {}


def write_cfg(name, text):
    d = os.path.join(OUT, "cfg")
    os.makedirs(d, exist_ok=True)
    p = os.path.join(d, name)
    with open(p, "w") as f:
        f.write(text)
    return p


def tlc_mc(module, cfg_text, tag, workers=4, timeout=900, simulate=None, seed=None,
           expect_violation=False, on_case=None, heap="6g", coverage=False):
    """Run TLC; a spurious StackOverflowError of multi-worker TLC (seen with lazily evaluated
    values shared between workers) is retried once with a single worker."""
    try:
        return _tlc_mc(module, cfg_text, tag, workers, timeout, simulate, seed, expect_violation, on_case, heap, coverage)
    except ToolError as e:
        if "StackOverflowError" in str(e) and workers > 1 and on_case is None:
            log(f"[tlc] {module}/{tag}: StackOverflowError with {workers} workers, retrying with 1")
            return _tlc_mc(module, cfg_text, tag, 1, timeout * 3, simulate, seed, expect_violation, on_case, heap, coverage)
        raise


def _tlc_mc(module, cfg_text, tag, workers=4, timeout=900, simulate=None, seed=None,
            expect_violation=False, on_case=None, heap="6g", coverage=False):
    """Run TLC on spec/mc/<module>.tla with a generated cfg.  Collects CASE lines."""
    cfg = write_cfg(f"{tag}.cfg", cfg_text)
    meta = os.path.join(OUT, "tlc", tag)
    shutil.rmtree(meta, ignore_errors=True)
    os.makedirs(meta, exist_ok=True)
    cmd = ["java", "-XX:+UseParallelGC", f"-Xmx{heap}", "-cp",
           "/opt/veriftools/tla/tla2tools.jar:/opt/veriftools/tla/CommunityModules-deps.jar",
           "tlc2.TLC", "-workers", str(workers), "-metadir", meta, "-cleanup",
           "-noGenerateSpecTE", "-config", cfg]
    if coverage:
        cmd += ["-coverage", "1"]
    if simulate:
        cmd += ["-simulate", simulate]
        if seed is not None:
            cmd += ["-seed", str(seed)]
    cmd.append(os.path.join(SPEC, "mc", module + ".tla"))
    res = TlcResult()
    t0 = time.time()
    p = subprocess.Popen(cmd, cwd=SPEC, env=_tlc_env(), stdout=subprocess.PIPE,
                         stderr=subprocess.STDOUT, text=True)
    timer = threading.Timer(timeout, p.kill)
    timer.start()
    other = []
    try:
        for line in p.stdout:
            line = line.rstrip("\n")
            m = _CASE_RE.match(line)
            if m:
                kind = m.group(1)
                try:
                    payload = json.loads(json.loads(m.group(2)))
                except Exception as e:  # noqa
                    raise ToolError(f"cannot parse TLC {kind} line: {line[:200]}")
                if kind == "CASE":
                    if on_case:
                        on_case(payload)
                    else:
                        res.cases.append(payload)
                elif kind == "INFO":
                    res.info.append(payload)
                continue
            sm = _STATS_RE.search(line)
            if sm:
                res.generated, res.distinct = int(sm.group(1)), int(sm.group(2))
            cm = re.match(r"^<(\w+) line \d+, col \d+ to line \d+, col \d+ of module (\w+)>: (\d+):(\d+)", line)
            if cm:      # -coverage 1: distinct states found / states generated by the action
                res.coverage[cm.group(1)] = [int(cm.group(3)), int(cm.group(4))]
            vm = re.search(r"Invariant (\w+) is violated", line)
            if vm:
                res.violated = vm.group(1)
            other.append(line)
            if len(other) > 400:
                other = other[-300:]
    finally:
        timer.cancel()
    res.rc = p.wait()
    res.wall = time.time() - t0
    res.tail = "\n".join(other[-60:])
    shutil.rmtree(meta, ignore_errors=True)
    if simulate:
        # simulation never "completes"; TLC is stopped by num= or by the timer
        if res.rc not in (0, -9, 137) and not res.violated:
            raise ToolError(f"TLC simulate {module} failed rc={res.rc}\n{res.tail}")
        return res
    if expect_violation:
        if not res.violated:
            raise ToolError(f"TLC {module}/{tag}: expected a counterexample, got none\n{res.tail}")
        return res
    if res.rc != 0:
        raise ToolError(f"TLC {module}/{tag} failed rc={res.rc} violated={res.violated}\n{res.tail}")
    return res


def _run_trace_chunk(module, path, idx, tag, results):
    try:
        _run_trace_chunk_inner(module, path, idx, tag, results)
    except Exception as e:  # noqa
        results[idx] = (99, None, 0, 0, f"exception in trace runner: {e!r}")


def _run_trace_chunk_inner(module, path, idx, tag, results):
    meta = os.path.join(OUT, "tlc", f"{tag}_tr{idx}")
    shutil.rmtree(meta, ignore_errors=True)
    os.makedirs(meta, exist_ok=True)
    cmd = ["java", "-XX:+UseParallelGC", "-Xmx3g", "-cp",
           "/opt/veriftools/tla/tla2tools.jar:/opt/veriftools/tla/CommunityModules-deps.jar",
           "tlc2.TLC", "-workers", "1", "-metadir", meta, "-cleanup", "-noGenerateSpecTE",
           "-config", os.path.join(SPEC, "trace", module + ".cfg"),
           os.path.join(SPEC, "trace", module + ".tla")]
    env = _tlc_env("-Dtlc2.tool.queue.IStateQueue=StateDeque")
    env["TRACE"] = path
    p = subprocess.run(cmd, cwd=SPEC, env=env, stdout=subprocess.PIPE, stderr=subprocess.STDOUT,
                       text=True, timeout=3600)
    verdict = None
    gen = dist = 0
    for line in p.stdout.splitlines():
        m = _CASE_RE.match(line)
        if m and m.group(1) == "VERDICT":
            verdict = json.loads(json.loads(m.group(2)))
        sm = _STATS_RE.search(line)
        if sm:
            gen, dist = int(sm.group(1)), int(sm.group(2))
    shutil.rmtree(meta, ignore_errors=True)
    results[idx] = (p.returncode, verdict, gen, dist, p.stdout[-3000:])


class TraceResult:
    def __init__(self):
        self.bad = []          # list of dicts: case (index into cases), why, detail, line
        self.events = 0
        self.cases = 0
        self.generated = 0
        self.distinct = 0
        self.wall = 0.0


def tlc_trace(module, cases_events, tag, nproc=8):
    """Validate recorded executions against spec/trace/<module>.tla.

    cases_events: list of event lists, one per case.  A Reset event is put in front of every
    case.  The cases are split over nproc TLC processes (the monitor is deterministic, so each
    process explores a linear state graph)."""
    tr = TraceResult()
    t0 = time.time()
    n = len(cases_events)
    if n == 0:
        return tr
    nproc = max(1, min(nproc, (n + 199) // 200))
    d = os.path.join(OUT, "trace")
    os.makedirs(d, exist_ok=True)
    chunks = [[] for _ in range(nproc)]
    # balance by event count
    sizes = [0] * nproc
    for ci, evs in enumerate(cases_events):
        k = sizes.index(min(sizes))
        chunks[k].append(ci)
        sizes[k] += len(evs) + 1
    threads, results, linemaps, paths = [], {}, [], []
    for k, cis in enumerate(chunks):
        path = os.path.join(d, f"{tag}_{k}.ndjson")
        linemap = []
        with open(path, "w") as f:
            for ci in cis:
                f.write(json.dumps({"ev": "Reset"}) + "\n")
                linemap.append((ci, -1))
                for off, ev in enumerate(cases_events[ci]):
                    f.write(json.dumps(tlcify(ev), separators=(",", ":")) + "\n")
                    linemap.append((ci, off))
        linemaps.append(linemap)
        paths.append(path)
        th = threading.Thread(target=_run_trace_chunk, args=(module, path, k, tag, results))
        th.start()
        threads.append(th)
    for th in threads:
        th.join()
    for k in range(nproc):
        rc, verdict, gen, dist, tail = results[k]
        if verdict is None or rc != 0 or verdict["n"] != len(linemaps[k]):
            raise ToolError(f"trace validation {module} chunk {k} did not complete rc={rc}\n{tail}")
        tr.generated += gen
        tr.distinct += dist
        tr.events += verdict["n"]
        for b in verdict["bad"]:
            ci, off = linemaps[k][b["line"] - 1]
            tr.bad.append({"case": ci, "event": off, "why": b["why"],
                           "detail": untlcify(b.get("detail", {})), "line": b["line"], "chunk": k})
        os.remove(paths[k])
    tr.cases = n
    tr.wall = time.time() - t0
    return tr


# ----------------------------------------------------------------------------- driver
def _limit_child():
    """the code under test may allocate without bound (that is a finding, reported as an abort of
    the case); it must not take the machine down with it"""
    import resource
    lim = int(os.environ.get("VERIF_DRIVER_MEM_GB", "6")) << 30
    resource.setrlimit(resource.RLIMIT_AS, (lim, lim))


RETRIED = {"timeout": 0, "abort": 0, "recovered": 0}


def run_driver(cases, case_timeout=20.0, tag="drv"):
    """run_driver_once, then every case that hung or aborted is executed again, alone, with a
    four times longer limit: only an outcome that repeats is attributed to the code under test
    (a loaded machine must not turn into a verdict)."""
    results = run_driver_once(cases, case_timeout, tag)
    by_id = {c["id"]: c for c in cases}
    confirmed = 0
    for cid, r in list(results.items()):
        if isinstance(r, dict) and ("timeout" in r or "abort" in r):
            RETRIED["timeout" if "timeout" in r else "abort"] += 1
            if confirmed >= 4:      # the machine is evidently not the cause; do not spend minutes per case
                continue
            again = run_driver_once([by_id[cid]], case_timeout * 4, tag).get(cid)
            if again is not None and "timeout" not in again and "abort" not in again:
                RETRIED["recovered"] += 1
                results[cid] = again
            else:
                confirmed += 1
    return results


def run_driver_once(cases, case_timeout=20.0, tag="drv"):
    """Execute cases (dicts with id, cmd, ...) on tx3-driver. Returns {id: result}.

    An abort (stack overflow, process::abort) or a hang is attributed to the case that was
    running and recorded as {"abort": ...} / {"timeout": true}; the remaining cases are
    executed by a fresh process."""
    results = {}
    pending = list(cases)
    while pending:
        p = subprocess.Popen([DRIVER], stdin=subprocess.PIPE, stdout=subprocess.PIPE,
                             stderr=subprocess.DEVNULL, text=True, bufsize=1 << 16, preexec_fn=_limit_child)

        def feed(proc=p, items=list(pending)):
            try:
                for c in items:
                    proc.stdin.write(json.dumps(c, separators=(",", ":")) + "\n")
                proc.stdin.close()
            except (BrokenPipeError, ValueError):
                pass

        th = threading.Thread(target=feed, daemon=True)
        th.start()
        current = None
        done_ids = set()
        fd = p.stdout.fileno()
        buf = b""
        os.set_blocking(fd, False)
        last = time.time()
        dead = False
        while True:
            r, _, _ = select.select([fd], [], [], 1.0)
            if r:
                chunk = os.read(fd, 1 << 20)
                if not chunk:
                    dead = True
                else:
                    buf += chunk
                    last = time.time()
                    while b"\n" in buf:
                        line, buf = buf.split(b"\n", 1)
                        if not line.strip():
                            continue
                        o = json.loads(line)
                        if "begin" in o:
                            current = o["begin"]
                        elif "id" in o:
                            results[o["id"]] = o
                            done_ids.add(o["id"])
                            current = None
                        elif "tool_error" in o:
                            raise ToolError("driver: " + o["tool_error"])
            if dead:
                break
            if current is not None and time.time() - last > case_timeout:
                p.kill()
                results[current] = {"id": current, "timeout": True}
                done_ids.add(current)
                current = None
                break
        rc = p.wait()
        if current is not None:
            results[current] = {"id": current, "abort": {"rc": rc}}
            done_ids.add(current)
        new_pending = [c for c in pending if c["id"] not in done_ids]
        if len(new_pending) == len(pending):
            raise ToolError(f"driver made no progress (rc={rc})")
        pending = new_pending
    return results


# ----------------------------------------------------------------------------- findings / reporting
def load_known():
    p = os.path.join(VERIF, "known_findings.json")
    if not os.path.exists(p):
        return {"findings": [], "fixed": []}
    with open(p) as f:
        return json.load(f)


def canon(v):
    return json.dumps(v, sort_keys=True, separators=(",", ":"))


def digest(v):
    return hashlib.sha256(canon(v).encode()).hexdigest()[:16]


class Report:
    """Accumulates what a check did and turns it into stdout lines, evidence and exit code."""

    def __init__(self, pid, tier, seed):
        self.pid, self.tier, self.seed = pid, tier, seed
        self.t0 = time.time()
        self.states = 0
        self.transitions = 0
        self.traces = 0
        self.evaluations = 0
        self.distinct = set()
        self.samples = []
        self.violations = {}      # signature -> dict(case=..., why=..., n=count)
        self.notes = []
        self.extra = {}
        self.assumptions = []
        self.exhaustive = False
        self.rule = ""

    def add_tlc(self, r):
        self.states += r.distinct
        self.transitions += r.generated
        if r.coverage:      # per-action [distinct, generated] counts of a run made with -coverage 1 (vacuity evidence)
            self.extra.setdefault("tlc_action_coverage", []).append(r.coverage)

    def add_trace(self, tr):
        self.states += tr.distinct
        self.transitions += tr.generated
        self.traces += tr.cases

    def violation(self, signature, what, replay):
        v = self.violations.get(signature)
        if v is None:
            self.violations[signature] = {"what": what, "replay": replay, "n": 1}
        else:
            v["n"] += 1
            # keep the smallest replay
            if len(canon(replay)) < len(canon(v["replay"])):
                v["replay"], v["what"] = replay, what

    def finish(self):
        known = load_known()
        ksigs = {f["signature"]: f for f in known.get("findings", []) if f["property"] == self.pid}
        wall = time.time() - self.t0
        outdir = os.path.join(OUT, self.pid)
        os.makedirs(outdir, exist_ok=True)
        n_viol = 0
        kf_lines = []
        lines = []
        for i, (sig, v) in enumerate(sorted(self.violations.items())):
            if sig in ksigs:
                kf_lines.append(f"KNOWN-FINDING: property={self.pid} {sig} :: {ksigs[sig]['what']} (seen {v['n']}x)")
                continue
            n_viol += 1
            path = os.path.join(outdir, f"{self.tier}_{i}.json")
            with open(path, "w") as f:
                json.dump({"property": self.pid, "signature": sig, "what": v["what"],
                           "count": v["n"], "seed": self.seed, "tier": self.tier,
                           "replay": v["replay"]}, f, indent=1)
            lines.append(f"VIOLATION property={self.pid} replay={path}")
            log(f"  signature: {sig} :: {v['what']} ({v['n']}x)")
        ev = {
            "property_id": self.pid, "tier": self.tier, "seed": self.seed,
            "level": "model_checking",
            "coverage": dict({
                "states": max(self.states, 1), "transitions": max(self.transitions, 1),
                "traces_validated_against_impl": self.traces,
                "evaluations": self.evaluations,
                "distinct_nontrivial": len(self.distinct),
                "rule": self.rule,
                "samples": self.samples[:6] or ["(none)"],
                "exhaustive": self.exhaustive,
                "known_findings": [l for l in kf_lines],
                "notes": self.notes + ([f"driver cases that hung/aborted and were re-executed alone: {RETRIED}"]
                                       if RETRIED["timeout"] + RETRIED["abort"] else []),
            }, **self.extra),
            "assumptions": self.assumptions,
            "wall_s": round(wall, 2),
            "violations": n_viol,
        }
        os.makedirs(os.path.join(VERIF, "evidence"), exist_ok=True)
        with open(os.path.join(VERIF, "evidence", f"{self.pid}.json"), "w") as f:
            json.dump(ev, f, indent=1)
        for l in kf_lines:
            print(l)
        for l in lines:
            print(l)
        print(f"[{self.pid}] tier={self.tier} seed={self.seed} states={self.states} "
              f"traces={self.traces} evaluations={self.evaluations} "
              f"distinct_nontrivial={len(self.distinct)} violations={n_viol} "
              f"known={len(kf_lines)} wall={wall:.1f}s")
        sys.stdout.flush()
        return 1 if n_viol else 0
