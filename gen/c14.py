"""C14 - the back end is total: resolving yields a transaction or an error, never a panic."""
import copy
import random

from . import core, pp, terms, langcheck
from .core import I

BCFG = """CONSTANTS
  Pairs = {pairs}
  Mode = "{mode}"
  MaxDeviations = {maxdev}
INIT Init
NEXT Next
INVARIANTS EmitCase
CHECK_DEADLOCK FALSE
"""
INTS = {"small": 3000000, "zero": 0, "minus1": -1, "i64max": 2**63 - 1, "i64min": -2**63, "u64max": 2**64 - 1, "two64": 2**64,
        "minus_two64": -2**64, "i128max": 2**127 - 1, "i128min": -2**127, "two32": 2**32}
LENS = {"len1": 1, "len0": 0, "len27": 27, "len28": 28, "len29": 29, "len31": 31, "len32": 32, "len33": 33, "len64": 64}
ADDRS = {"key": [0x60] + [0x51] * 28, "script": [0x70] + [0x52] * 28, "base": [0x00] + [0x53] * 56, "stake": [0xE0] + [0x54] * 28,
         "byron": [0x82, 0xD8, 0x18, 0x58, 0x21] + [0x55] * 33, "one_byte": [0x60], "empty": [], "raw28": [0x56] * 28,
         "bad_header": [0xFF] + [0x57] * 56}
DEEP = {"k": "number", "num": I(1)}
for _ in range(40):
    DEEP = {"k": "list", "items": [DEEP]}


def utxos_for(kind, addr):
    tok = {"k": "defined", "policy": [0x11] * 28, "name": [97]}
    base = {"ref": {"txid": [1] * 32, "index": 0}, "address": addr,
            "assets": [{"c": {"k": "naked"}, "n": I(50_000_000)}, {"c": tok, "n": I(7)}],
            "datum": {"k": "struct", "ctor": 0, "fields": [{"k": "number", "num": I(11)}, {"k": "bytes", "v": [5, 6]}]}}
    u = copy.deepcopy(base)
    if kind == "zero_lovelace":
        u["assets"][0]["n"] = I(0)
    elif kind == "huge_assets":
        u["assets"] = [{"c": {"k": "naked"}, "n": I(2**64)}, {"c": tok, "n": I(2**64 + 5)}]
    elif kind == "i128_assets":
        u["assets"] = [{"c": {"k": "naked"}, "n": I(2**127 - 1)}, {"c": tok, "n": I(2**127 - 1)}]
    elif kind == "negative_asset":
        u["assets"][1]["n"] = I(-3)
    elif kind == "datum_number":
        u["datum"] = {"k": "number", "num": I(5)}
    elif kind == "datum_deep":
        u["datum"] = DEEP
    elif kind == "no_datum":
        u["datum"] = {"k": "none"}
    if kind == "two_utxos":
        v = copy.deepcopy(base)
        v["ref"] = {"txid": [2] * 32, "index": 1}
        if kind == "i128_assets":
            v["assets"] = u["assets"]
        return [u, v]
    if kind == "i128_assets":
        v = copy.deepcopy(u)
        v["ref"] = {"txid": [2] * 32, "index": 1}
        return [u, v]
    return [u]


def store_for(kind, addr, utxos):
    if kind == "empty":
        return []
    if kind == "insufficient":
        s = copy.deepcopy(utxos[:1])
        s[0]["assets"] = [{"c": {"k": "naked"}, "n": I(10)}]
        return s
    if kind == "sixty":
        out = []
        for i in range(60):
            u = copy.deepcopy(utxos[0])
            u["ref"] = {"txid": [i] * 32, "index": i % 3}
            u["assets"] = [{"c": {"k": "naked"}, "n": I(1_000_000 + i)}]
            out.append(u)
        return out + copy.deepcopy(utxos)
    if kind == "other_address":
        s = copy.deepcopy(utxos)
        for u in s:
            u["address"] = [0x60] + [0x99] * 28
        return s
    return copy.deepcopy(utxos)


def cfg_for(row):
    c = {"network": 1 if row["network"] == "mainnet" else 0, "a": 44, "b": 155381, "cpb": 4310, "cost_models": row["cost_models"]}
    if row["fee_params"] == "zero":
        c.update(a=0, b=0, cpb=0, extra_fees=0)
    elif row["fee_params"] == "huge_cpb":
        c.update(cpb=2**63)
    elif row["fee_params"] == "huge_a":
        c.update(a=2**62, b=2**63)
    return c


FEES = {"normal": 170000, "zero": 0, "u64max": 2**64 - 1}


def realise(template, row, idx):
    """template: ("source", text, txname, param table, inputs) | ("tir", abstract tx, param table, query names)"""
    n = INTS[row["int"]]
    b = [(7 * k + 1) % 256 for k in range(LENS[row["bytes"]])]
    addr = ADDRS[row["addr"]]
    utxos = utxos_for(row["utxo"], addr)
    args = {}
    for name, ty in template["params"]:
        if ty == "Int":
            args[name] = {"k": "number", "num": I(n)}
        elif ty == "Bytes":
            args[name] = {"k": "bytes", "v": b}
        elif ty == "Address":
            args[name] = {"k": "address", "v": addr}
        elif ty == "UtxoRef":
            args[name] = {"k": "utxo_refs", "refs": [{"txid": b, "index": 0}]}
        elif ty == "Bool":
            args[name] = {"k": "bool", "flag": True}
        else:
            args[name] = {"k": "number", "num": I(n)}
    job = {"id": idx, "cmd": "backend", "args": args, "fee": I(FEES[row["fee"]]), "cfg": cfg_for(row),
           "utxos": {q: utxos for q in template["queries"]}, "store": store_for(row["store"], addr, utxos),
           "history": row["history"] == "after_empty_body", "rounds": 3}
    if template["kind"] == "source":
        job["source"] = template["source"]
        job["txname"] = "t"
    else:
        job["tx"] = template["tx"]
    return job


KEY_ADDR = [0x60] + [0x51] * 28
STAKE_ADDR = [0xE0] + [0x54] * 28
GOOD = {
    ("withdrawal", "credential"): {"k": "address", "v": STAKE_ADDR},
    ("withdrawal", "amount"): {"k": "number", "num": I(5)},
    ("withdrawal", "redeemer"): {"k": "struct", "ctor": 0, "fields": []},
    ("plutus_witness", "version"): {"k": "number", "num": I(3)},
    ("plutus_witness", "script"): {"k": "bytes", "v": [0x51, 0x01, 0x01, 0x00]},
    ("native_witness", "script"): {"k": "bytes", "v": [0x82, 0x00, 0x58, 0x1C] + [0x51] * 28},
    ("cardano_publish", "to"): {"k": "address", "v": KEY_ADDR},
    ("cardano_publish", "amount"): {"k": "assets", "items": [{"policy": {"k": "none"}, "name": {"k": "none"}, "amount": {"k": "number", "num": I(2000000)}}]},
    ("cardano_publish", "datum"): {"k": "struct", "ctor": 0, "fields": [{"k": "number", "num": I(1)}]},
    ("cardano_publish", "version"): {"k": "number", "num": I(3)},
    ("cardano_publish", "script"): {"k": "bytes", "v": [0x51, 0x01, 0x01, 0x00]},
    ("treasury_donation", "coin"): {"k": "number", "num": I(7)},
    ("vote_delegation_certificate", "drep"): {"k": "bytes", "v": [0x33] * 28},
    ("vote_delegation_certificate", "stake"): {"k": "address", "v": STAKE_ADDR},
}
SHAPES = {
    "none": {"k": "none"}, "number": {"k": "number", "num": I(2**64)}, "negative": {"k": "number", "num": I(-1)},
    "bytes3": {"k": "bytes", "v": [1, 2, 3]}, "bytes28": {"k": "bytes", "v": [9] * 28}, "list": {"k": "list", "items": []},
    "bool": {"k": "bool", "flag": True}, "address": {"k": "address", "v": KEY_ADDR}, "param": {"k": "p_value", "name": "p1", "ty": "Int"},
}


def directive_tx(c):
    """an otherwise plain constant transaction carrying the directive instance c (Backend!DirectiveInstances)"""
    data = []
    for f, shape in sorted(c["shapes"].items()):
        if shape == "missing":
            continue
        data.append({"key": f, "val": copy.deepcopy(GOOD[(c["name"], f)] if shape == "good" else SHAPES[shape])})
    if c["extra"]:
        data.append({"key": "unknown_field", "val": {"k": "number", "num": I(1)}})
    utxo = {"ref": {"txid": [1] * 32, "index": 0}, "address": KEY_ADDR, "assets": [{"c": {"k": "naked"}, "n": I(50_000_000)}],
            "datum": {"k": "none"}}
    lovelace = lambda e: {"k": "assets", "items": [{"policy": {"k": "none"}, "name": {"k": "none"}, "amount": e}]}  # noqa
    return {"fees": {"k": "p_fees"}, "references": [],
            "inputs": [{"name": "src", "utxos": {"k": "p_input", "name": "src", "q": {
                "address": {"k": "address", "v": KEY_ADDR}, "min_amount": lovelace({"k": "number", "num": I(3000000)}),
                "ref": {"k": "none"}, "many": False, "collateral": False}}, "redeemer": {"k": "none"}}],
            "outputs": [{"address": {"k": "address", "v": KEY_ADDR}, "datum": {"k": "none"},
                         "amount": lovelace({"k": "number", "num": I(2000000)}), "optional": False}],
            "validity": {"k": "none"}, "mints": [], "burns": [], "adhoc": [{"name": c["name"], "data": data}],
            "collateral": [], "signers": {"k": "none"}, "metadata": []}


WIDE = {1: "c", 2: "\u00e9", 3: "\u3068", 4: "\U0001F600"}


def metadata_tx(c):
    text = "a" * c["prefix"] + WIDE[c["width"]] + "b" * c["tail"]
    raw = list(text.encode())
    if c["form"] == "string":
        val = {"k": "string", "v": raw}
    elif c["form"] == "bytes":
        val = {"k": "bytes", "v": raw}
    else:
        half = c["prefix"] // 2
        val = {"k": "concat", "a": {"k": "string", "v": list(text[:half].encode())}, "b": {"k": "string", "v": list(text[half:].encode())}}
    tx = directive_tx({"name": "treasury_donation", "shapes": {"coin": "good"}, "extra": False})
    tx["adhoc"] = []
    tx["metadata"] = [{"key": {"k": "number", "num": I(674)}, "value": val}]
    return tx


def asset_literal_tx(c):
    kinds = dict(SHAPES, string={"k": "string", "v": [120, 121]}, struct={"k": "struct", "ctor": 0, "fields": []})
    item = {"policy": {"k": "bytes", "v": [0x11] * 28}, "name": {"k": "bytes", "v": [97]}, "amount": {"k": "number", "num": I(5)}}
    item[c["field"]] = copy.deepcopy(kinds[c["kind"]])
    lit = {"k": "assets", "items": [item]}
    other = {"k": "assets", "items": [{"policy": {"k": "none"}, "name": {"k": "none"}, "amount": {"k": "number", "num": I(2000000)}}]}
    e = {"alone": lit, "add_left": {"k": "add", "a": lit, "b": other}, "add_right": {"k": "add", "a": other, "b": lit},
         "sub_left": {"k": "sub", "a": lit, "b": other}, "sub_right": {"k": "sub", "a": other, "b": lit},
         "negate": {"k": "negate", "a": lit}, "into_assets": {"k": "into_assets", "a": lit}}[c["op"]]
    tx = directive_tx({"name": "treasury_donation", "shapes": {"coin": "good"}, "extra": False})
    tx["adhoc"] = []
    tx["outputs"][0]["amount"] = e
    tx["mints"] = [{"amount": copy.deepcopy(e), "redeemer": {"k": "none"}}]
    return tx


def templates(rep, tier, seed):
    quick = tier == "quick"
    rng = random.Random(seed)
    out = []
    lang = langcheck.gen(rep, langcheck.ALL_SLOTS, 0 if quick else 1, [1], "c14_lang", workers=6)
    if quick:
        rng.shuffle(lang)
        lang = lang[:70]
    for c in lang:
        prog = core.untlcify(c["prog"])
        out.append({"kind": "source", "source": pp.sources(prog, "t", seed)[0],
                    "params": [("n", "Int"), ("mixed", "Int"), ("b", "Bytes"), ("e_int", "Int"), ("sender", "Address"),
                               ("receiver", "Address"), ("myparty", "Address")],
                    "queries": ["source", "collateral"], "origin": "lang:" + c["slot"]})
    # multi-feature programs: the block-presence lattice of C10 (mint / burn that cancel, redeemers, collateral,
    # references, metadata, signers ...) and the redeemer-order programs of C08 (several script inputs, mints, withdrawals)
    led = langcheck.gen_ledger(rep, "c10", "c14_c10", features=langcheck.FEATURES if not quick else
                               ["metadata", "input_redeemer", "mint", "mint_redeemer", "burn_same", "burn_other_asset", "burn_all",
                                "optional_empty", "signers", "collateral", "datum", "validity"], workers=6)
    led8 = langcheck.gen_ledger(rep, "c08", "c14_c08", ninputs=2, workers=6)
    rng.shuffle(led)
    rng.shuffle(led8)
    for c in led[:80 if quick else 1500] + led8[:40 if quick else 1500]:
        prog = core.untlcify(c["prog"])
        out.append({"kind": "source", "source": pp.sources(prog, "t", seed)[0],
                    "params": [("n", "Int"), ("mixed", "Int"), ("b", "Bytes"), ("e_int", "Int"), ("sender", "Address"),
                               ("receiver", "Address"), ("myparty", "Address"), ("stakeone", "Address"), ("staketwo", "Address")],
                    "queries": sorted({i["name"] for i in prog["tx"]["inputs"]} | {"collateral"}), "origin": "ledger:" + c["slot"]})
    # chain-specific directives (Backend!DirectiveInstances): every field of the schema good / missing / of another shape
    dr = core.tlc_mc("MC_Backend", BCFG.format(pairs="FALSE", mode="directives", maxdev=1 if quick else 2), "c14_directives",
                     workers=4, timeout=900)
    rep.add_tlc(dr)
    dcs = list(dr.cases)
    if not quick and len(dcs) > 6000:
        rng.shuffle(dcs)
        dcs = dcs[:6000]
    for c in dcs:
        out.append({"kind": "tir", "tx": directive_tx(c), "params": [("p1", "Int")], "queries": ["src"],
                    "origin": "directive:" + c["name"] + ":" + ",".join(f"{k}={v}" for k, v in sorted(c["shapes"].items()) if v != "good")
                              + ("+extra" if c["extra"] else "")})
    rep.extra["directive_instances"] = len(dcs)
    # metadata text / bytes around the 64-byte limit, a multi-byte character possibly straddling it (Backend!MetadataTextCases)
    mr = core.tlc_mc("MC_Backend", BCFG.format(pairs="FALSE", mode="metadata", maxdev=0), "c14_metadata", workers=2, timeout=600)
    rep.add_tlc(mr)
    for c in mr.cases:
        out.append({"kind": "tir", "tx": metadata_tx(c), "params": [("p1", "Int")], "queries": ["src"],
                    "origin": f"metadata:{c['form']}:{c['prefix']}+{c['width']}+{c['tail']}"})
    rep.extra["metadata_text_cases"] = len(mr.cases)
    # ill-typed asset literals, alone and under the operations that fold asset lists (Backend!AssetLiteralCases)
    ar = core.tlc_mc("MC_Backend", BCFG.format(pairs="FALSE", mode="assets", maxdev=0), "c14_assets", workers=2, timeout=600)
    rep.add_tlc(ar)
    for c in ar.cases:
        out.append({"kind": "tir", "tx": asset_literal_tx(c), "params": [("p1", "Int")], "queries": ["src"],
                    "origin": f"asset-literal:{c['op']}:{c['field']}={c['kind']}"})
    rep.extra["asset_literal_cases"] = len(ar.cases)
    from .staging import CFG_CLOSURE
    clo = core.tlc_mc("MC_Closure", CFG_CLOSURE.format(depth=0 if quick else 1), "c14_closure", workers=6, timeout=1500)
    rep.add_tlc(clo)
    cl = list(clo.cases)
    if not quick:
        rng.shuffle(cl)
        cl = cl[:1500]
    for c in cl:
        out.append({"kind": "tir", "tx": core.untlcify(c["tx"]),
                    "params": [("n", "Int"), ("b", "Bytes"), ("i", "Int"), ("owner", "Address"), ("p1", "Int"), ("e1", "Bytes"),
                               ("party", "Address"), ("p2", "Int")],
                    "queries": ["src", "src2", "src3", "q1", "i"], "origin": "closure:" + c["slot"] + ":" + c["leaf"]})
    for k in range(150 if quick else 3000):
        tx = terms.rtx(rng, rng.randint(1, 4))
        out.append({"kind": "tir", "tx": tx, "params": [("p%d" % i, terms.TYPES[i] if terms.TYPES[i] in ("Int", "Bytes", "Address", "Bool", "UtxoRef") else "Int")
                                                       for i in range(len(terms.TYPES))],
                    "queries": ["src", "other", "a", "b"], "origin": "random"})
    return out


def sig_of(b):
    import re
    d = b["detail"]
    msg = re.sub(r"\d+", "N", str(d.get("msg")))[:110]
    return f"{d.get('outcome')}|{d.get('stage')}|{d.get('site')}|{msg}"


def check(tier, seed):
    rep = core.Report("C14", tier, seed)
    rep.rule = ("a case is a template (core programs of MC_Lang, multi-feature programs of MC_Ledger (C10 lattice, C08 orders), one-hole IR templates of MC_Closure, seeded random IR trees) resolved in one "
                "row of the boundary matrix enumerated by TLC (MC_Backend): integer argument class (0, -1, +-2^63, +-2^64, i128 extremes), "
                "byte-string length (0..64 where 28 / 32 are expected), address kind (key, script, base, stake, Byron-like, 1 byte, empty, "
                "raw 28 bytes, bad header), UTxO contents (zero / huge / i128 / negative assets, wrong or deep datum), store (empty, "
                "insufficient, 60 UTxOs, other address), cost models (all, none, v1 only), fee parameters, fee, network, compiler history; "
                "the default row, every single deviation and pairs of deviations. Each case runs the staged path and resolve_tx. "
                "non-trivial: the row deviates from the default; distinct = distinct (template, row).")
    rep.assumptions = ["TLC 1.8, Json module", "outcome alphabet only: the spec's role is the matrix and 'no Panic action'",
                       "a hang is observed as a 20 s timeout, an abort as the death of the driver child"]
    core.build_driver()
    quick = tier == "quick"
    rng = random.Random(seed)
    r = core.tlc_mc("MC_Backend", BCFG.format(pairs="TRUE", mode="rows", maxdev=1), "c14_rows", workers=4, timeout=600)
    rep.add_tlc(r)
    rows = r.cases
    single = [x for x in rows if sum(1 for k in x if k != "_" and x[k] != DEFAULT[k]) <= 1]
    pairs = [x for x in rows if x not in single]
    tpls = templates(rep, tier, seed)
    rep.extra["templates"] = len(tpls)
    rep.extra["matrix_rows"] = {"single": len(single), "pairs": len(pairs)}
    jobs, meta = [], []
    for t in tpls:
        chosen = list(single) + rng.sample(pairs, 12 if quick else 60)
        for row in chosen:
            jobs.append(realise(t, row, len(jobs)))
            meta.append((t["origin"], row))
    limit = 32000 if quick else 400000
    if len(jobs) > limit:
        idx = sorted(rng.sample(range(len(jobs)), limit))
        jobs = [dict(jobs[i], id=k) for k, i in enumerate(idx)]
        meta = [meta[i] for i in idx]
    rep.evaluations = len(jobs)
    results = core.run_driver(jobs, case_timeout=20)
    evs = []
    for j in jobs:
        res = results[j["id"]]
        if "events" not in res:
            kind = "timeout" if res.get("timeout") else "abort"
            evs.append([{"ev": "Stage", "name": "resolve_tx", "outcome": kind, "kind": "", "site": "process", "msg": str(res.get("abort", ""))[:60]}])
        else:
            evs.append(res["events"])
    tr = core.tlc_trace("Trace_Backend", evs, "c14", nproc=8 if quick else 12)
    rep.add_trace(tr)
    for (origin, row), j in zip(meta, jobs):
        if row != DEFAULT:
            rep.distinct.add(core.digest([origin, row, j.get("source", j.get("tx"))]))
    outcomes = {}
    for e in evs:
        for x in e:
            outcomes[x["name"] + ":" + x["outcome"]] = outcomes.get(x["name"] + ":" + x["outcome"], 0) + 1
    rep.extra["outcomes"] = outcomes
    for b in tr.bad:
        if b["why"] == "tool":
            raise core.ToolError(f"harness failure: {b}")
        origin, row = meta[b["case"]]
        dev = {k: v for k, v in row.items() if v != DEFAULT[k]}
        rep.violation(sig_of(b), f"{b['detail']} origin={origin} row deviations={dev}",
                      {"cmd": "backend", "job": jobs[b["case"]], "origin": origin, "row": row, "detail": b["detail"]})
    # resolutions whose fee rounds go up and down (change output at a CBOR width boundary, funds inside the fee window):
    # the sweep of C05, judged here only for ending in ok / err
    from . import resolveloop
    rjobs, rheads = resolveloop.sweep_jobs([(44, 155381, None), (1, 2, 0)] if quick else
                                           [(44, 155381, None), (1, 2, None), (0, 0, 0), (44, 1000, 0), (1, 2, 0)], quick, rng)
    rtr, revs = resolveloop.run_jobs(rjobs, rheads, "c14_loop", 8 if quick else 12)
    rep.add_trace(rtr)
    rep.extra["fee_boundary_resolutions"] = len(rjobs)
    for b in rtr.bad:
        if b["why"] == "panic":
            j = rjobs[b["case"]]
            d = b["detail"]
            import re
            msg = re.sub(r"\d+", "N", str(d.get("msg")))[:60]
            rep.violation(f"panic|resolve_tx|{d.get('site')}|{msg}|fee-boundary", f"{b['detail']} origin=fee-boundary",
                          {"cmd": "resolve", "job": j, "head": rheads[b["case"]], "detail": b["detail"]})
    canary(rep)
    k = len(jobs) // 2
    rep.samples = [{"origin": meta[k][0], "row": meta[k][1]}, {"trace_events": evs[k]}]
    return rep.finish()


DEFAULT = {"int": "small", "bytes": "len1", "addr": "key", "utxo": "normal", "store": "enough", "cost_models": "all",
           "fee_params": "normal", "fee": "normal", "network": "testnet", "history": "fresh"}


def canary(rep):
    evs = [[{"ev": "Stage", "name": "compile", "outcome": "panic", "kind": "", "site": "x.rs", "msg": "boom"}],
           [{"ev": "Stage", "name": "resolve_tx", "outcome": "timeout", "kind": "", "site": "process", "msg": ""}]]
    tr = core.tlc_trace("Trace_Backend", evs, "c14_canary", nproc=1)
    if {x["case"] for x in tr.bad} != {0, 1}:
        raise core.ToolError(f"canary not rejected: binding broken ({tr.bad})")
    rep.extra["canary_rejected"] = True


def replay(doc):
    core.build_driver()
    j = dict(doc["replay"]["job"], id=0)
    res = core.run_driver([j], case_timeout=20)[0]
    evs = res.get("events", [{"ev": "Stage", "name": "resolve_tx", "outcome": "abort", "kind": "", "site": "process", "msg": ""}])
    tr = core.tlc_trace("Trace_Backend", [evs], "c14_replay", nproc=1)
    print(core.json.dumps({"events": evs, "bad": tr.bad}, indent=1))
    return 1 if tr.bad else 0
