"""C05 (the fee in the body is the fee reported and covers the final size) and
C20 (resolution does not depend on what the compiler instance compiled before)."""
import copy
import random
import re

from . import core
from .core import I

SENDER = [0x60] + [0x51] * 28
RECEIVER = [0x60] + [0x52] * 28

SRC = {
    "transfer": """party Sender;
party Receiver;
tx transfer(quantity: Int) {
    input source { from: Sender, min_amount: Ada(quantity) + fees, }
    output { to: Receiver, amount: Ada(quantity), }
    output { to: Sender, amount: source - Ada(quantity) - fees, }
}""",
    "transfer_nofee_min": """party Sender;
party Receiver;
tx transfer(quantity: Int) {
    input source { from: Sender, min_amount: Ada(quantity), }
    output { to: Receiver, amount: Ada(quantity), }
    output { to: Sender, amount: source - Ada(quantity) - fees, }
}""",
    "transfer_min": """party Sender;
party Receiver;
tx transfer(quantity: Int) {
    input source { from: Sender, min_amount: fees + min_utxo(minimal) + min_utxo(change), }
    output minimal { to: Receiver, amount: min_utxo(minimal), }
    output change { to: Sender, amount: source - fees - min_utxo(minimal), }
}""",
    "out0": """party Sender;
tx transfer(quantity: Int) {
    input source { from: Sender, min_amount: fees, }
}""",
    "out1": """party Sender;
tx transfer(quantity: Int) {
    input source { from: Sender, min_amount: fees, }
    output { to: Sender, amount: source - fees, }
}""",
    "out3_min2": """party Sender;
party Receiver;
tx transfer(quantity: Int) {
    input source { from: Sender, min_amount: fees + Ada(quantity), }
    output a { to: Receiver, amount: Ada(quantity), }
    output b { to: Sender, amount: source - fees - Ada(quantity) - min_utxo(c), }
    output c { to: Receiver, amount: min_utxo(c), }
}""",
    "out5": """party Sender;
party Receiver;
tx transfer(quantity: Int) {
    input source { from: Sender, min_amount: fees + Ada(quantity), }
    output { to: Receiver, amount: Ada(1000000), }
    output { to: Receiver, amount: Ada(1000001), }
    output { to: Receiver, amount: Ada(1000002), }
    output { to: Receiver, amount: Ada(1000003), }
    output { to: Sender, amount: source - fees - Ada(4000006), }
}""",
    "fail": """party Sender;
party Receiver;
tx transfer(quantity: Int) {
    input source { from: Receiver, min_amount: fees + Ada(quantity), }
    output { to: Sender, amount: source - fees, }
}""",
}
# an optional output that is always empty (and so dropped) before the output min_utxo asks about: the position the
# template names does not exist in the compiled body
SRC["optional_drop_min"] = """party Sender;
party Receiver;
tx transfer(quantity: Int) {
    input source { from: Sender, min_amount: fees + Ada(quantity), }
    output ? gift { to: Receiver, amount: Ada(quantity) - Ada(quantity), }
    output deposit { to: Receiver, amount: min_utxo(change), }
    output change { to: Sender, amount: source - fees - min_utxo(change), }
}"""
# the only output of the template is optional and, for quantity 0, empty: the compiled body has no output at all, yet
# the input's min_amount asks for the min_utxo of that output (position 0 of a body that holds nothing)
SRC["optional_only_min"] = """party Sender;
party Receiver;
tx transfer(quantity: Int) {
    input source { from: Sender, min_amount: fees + min_utxo(gift) + Ada(quantity), }
    output ? gift { to: Receiver, amount: Ada(quantity), }
}"""
SRC["optional_last_min"] = """party Sender;
party Receiver;
tx transfer(quantity: Int) {
    input source { from: Sender, min_amount: fees + min_utxo(gift) + Ada(quantity), }
    output change { to: Sender, amount: source - fees - Ada(quantity), }
    output ? gift { to: Receiver, amount: Ada(quantity), }
}"""
# a mint guarded by a redeemer next to a Plutus witness of language 1, 2 or 3: the script-data hash commits to the
# language view (its id and cost model), so each language makes its own bytes -- on any instance, after any history
for _v in (1, 2, 3):
    SRC["mint_v%d" % _v] = """party Sender;
tx transfer(quantity: Int) {
    input source { from: Sender, min_amount: fees + Ada(quantity), }
    mint { amount: AnyAsset(0x""" + "ab" * 28 + """, "t", 1), redeemer: (), }
    output { to: Sender, amount: source - fees + AnyAsset(0x""" + "ab" * 28 + """, "t", 1), }
    cardano::plutus_witness { version: """ + str(_v) + """, script: 0x4e4d01000033222220051200120011, }
}"""
# thresholds whose amount is not a number when the inputs are looked for: ill-typed (the fee is a value, not an Int),
# waiting for the datum of another input, or for a compiler built-in -- an error or a resolution, never a panic
SRC["min_is_ada_of_fees"] = """party Sender;
tx transfer(quantity: Int) {
    input source { from: Sender, min_amount: Ada(fees), }
    output { to: Sender, amount: source - fees, }
}"""
SRC["min_from_other_input"] = """party Sender;
type D { v: Int, }
tx transfer(quantity: Int) {
    input first { from: Sender, datum_is: D, min_amount: Ada(quantity), }
    input source { from: Sender, min_amount: Ada(first.v), }
    output { to: Sender, amount: source + first - fees, }
}"""
SRC["min_is_ada_of_min_utxo"] = """party Sender;
tx transfer(quantity: Int) {
    input source { from: Sender, min_amount: Ada(min_utxo(o)) + AnyAsset(0x""" + "ab" * 28 + """, "t", fees), }
    output o { to: Sender, amount: source - fees, }
}"""
# metadata: the same text under two labels, another text under the first label -- what an instance wrote into the
# auxiliary data of one transaction has no business in the next one
for _n, (_lab, _txt) in {"meta_674_order": (674, "order 17"), "meta_1_order": (1, "order 17"), "meta_674_other": (674, "other text")}.items():
    SRC[_n] = """party Sender;
tx transfer(quantity: Int) {
    input source { from: Sender, min_amount: fees + Ada(quantity), }
    output { to: Sender, amount: source - fees, }
    metadata { %d: "%s", }
}""" % (_lab, _txt)
KIND = {"transfer": "transfer", "transfer_nofee_min": "transfer", "transfer_min": "transfer_min"}


def args(q):
    return {"quantity": {"k": "number", "num": I(q)}, "sender": {"k": "address", "v": SENDER},
            "receiver": {"k": "address", "v": RECEIVER}}


def store(amounts):
    return [{"ref": {"txid": [i + 1] * 32, "index": i}, "address": SENDER, "assets": [{"c": {"k": "naked"}, "n": I(a)}]}
            for i, a in enumerate(amounts)]


SRC["big_datum_tight"] = """party Sender;
party Receiver;
tx transfer(quantity: Int) {
    input source { from: Sender, min_amount: Ada(quantity) + fees, }
    output { to: Receiver, amount: Ada(quantity), datum: [""" + ", ".join(["1234567890123"] * 60) + """], }
}"""
# templates resolved against a store of their own: exactly the quantity, so that round 1 (fee 0)
# compiles and round 2 fails for lack of fees
TIGHT = {"big_datum_tight"}


def step(tname, q, amounts, rounds=3):
    if tname in TIGHT:
        amounts = [q]
    return {"source": SRC[tname], "tx": "transfer", "args": args(q), "store": store(amounts), "rounds": rounds}


def cfg(a, b, extra, cpb=4310):
    return {"network": 0, "a": a, "b": b, "cpb": cpb, "extra_fees": extra, "cost_models": "all"}


def case_event(steps_names, q, amounts, c, rounds):
    return {"ev": "Case",
            "tpls": [{"kind": KIND.get(n, "other"), "send": I(q), "name": n} for n in steps_names],
            "cfg": {"a": c["a"], "b": c["b"], "cpb": c["cpb"], "rounds": rounds,
                    "extra": {"k": "none"} if c["extra_fees"] is None else {"k": "some", "n": I(c["extra_fees"])}},
            "store": [{"ref": u["ref"], "lovelace": u["assets"][0]["n"]} for u in store(amounts)]}


def sig_of(b):
    d = b["detail"]
    w = b["why"]
    if w == "panic":
        return f"panic|{d.get('site')}|{d.get('msg')}"
    if w == "history-dependence":
        return f"history-dependence|shared={d.get('shared')}|fresh={d.get('fresh')}|{d.get('kind')}{d.get('site')}"
    if w == "change":
        return f"change|{d.get('kind')}"
    if w == "min-utxo":
        return f"min-utxo|{d.get('why')}"
    return w


C05_REASONS = {"fee-in", "fee-formula", "change", "round-cap", "fixed-point", "deviation:ReturnAtCap",
               "result-not-last-round", "hash", "min-utxo", "panic", "front-end", "round-numbering"}
C20_REASONS = {"history-dependence", "deviation:StaleMem", "panic", "front-end"}
TOOL = {"mem-tracking"}


def run_jobs(jobs, heads, tag, nproc):
    results = core.run_driver(jobs)
    evs = []
    for j, h in zip(jobs, heads):
        r = results[j["id"]]
        if "events" not in r:
            evs.append([h, {"ev": "Begin", "instance": "A", "pos": 1, "last": True},
                        {"ev": "Result", "label": "A", "outcome": "panic", "site": "abort", "msg": str(r)[:80]}])
        else:
            evs.append([h] + r["events"])
    tr = core.tlc_trace("Trace_ResolveLoop", evs, tag, nproc=nproc)
    for b in tr.bad:
        if b["why"] in TOOL:
            raise core.ToolError(f"harness inconsistency: {b}")
    return tr, evs


MC_CFG = """CONSTANTS
  As = {{{As}}}
  Bs = {{{Bs}}}
  S0 = 6
  Ins = {{{Ins}}}
  Sends = {{5, 30}}
  MaxEvals = 5
  ReturnAtCap = {cap}
  StaleMem = {stale}
  Mems = {{{mems}}}
  MinIdxs = {{{idxs}}}
INIT Init
NEXT Next
INVARIANTS {invs}
CHECK_DEADLOCK FALSE
"""


def design(rep, quick):
    ins = ", ".join(str(x) for x in list(range(36, 64, 1)) + list(range(260, 300, 1)) + [100, 70000, 65590, 65600])
    base = dict(As="0, 1, 3, 7", Bs="0, 7", Ins=ins)
    # the loop the property demands: never returns a non fixed point, independent of history
    r = core.tlc_mc("MC_ResolveLoop", MC_CFG.format(cap="FALSE", stale="FALSE", mems="99, 0, 1, 2, 3", idxs="0, 1",
                                                    invs="FixedPoint HistoryIndependent", **base),
                    f"{rep.pid}_design", workers=4, timeout=900, coverage=True)
    rep.add_tlc(r)
    rep.extra["design_states"] = r.distinct
    # the pinned code's deviations, shown on the model
    r1 = core.tlc_mc("MC_ResolveLoop", MC_CFG.format(cap="TRUE", stale="FALSE", mems="99", idxs="0", invs="FixedPoint", **base),
                     f"{rep.pid}_dev_cap", workers=4, timeout=900, expect_violation=True)
    m = re.findall(r"/\\ (a|b|inAmt|send) = (\d+)", r1.tail)
    rep.notes.append(f"deviation ReturnAtCap: TLC counterexample to FixedPoint on the width model, parameters {dict(m)}")
    r2 = core.tlc_mc("MC_ResolveLoop", MC_CFG.format(cap="FALSE", stale="TRUE", mems="99, 0, 1, 2, 3", idxs="0, 1",
                                                     invs="HistoryIndependent", **base),
                     f"{rep.pid}_dev_mem", workers=4, timeout=900, expect_violation=True)
    rep.notes.append("deviation StaleMem: TLC counterexample to HistoryIndependent on the model (min_utxo sized from another template's body)")
    # vacuity: some run converges after >= 2 rounds
    core.tlc_mc("MC_ResolveLoop", MC_CFG.format(cap="FALSE", stale="FALSE", mems="99", idxs="0", invs="SomeConverges", **base),
                f"{rep.pid}_vac", workers=4, timeout=900, expect_violation=True)


def calibrate(tname, q, c):
    """fee of a mid-range resolution, to aim the sweep at the width boundaries"""
    j = {"id": 0, "cmd": "resolve", "cfg": c, "steps": [step(tname, q, [2**33])], "compare_fresh": False}
    r = core.run_driver([j])[0]
    for e in r.get("events", []):
        if e["ev"] == "Result" and e["outcome"] == "ok":
            return int(e["fee"]["I"])
    return None


def check_c05(tier, seed):
    rep = core.Report("C05", tier, seed)
    rep.rule = ("a case is a transfer-shaped template (fees in outputs, with/without fees in min_amount, with/without min_utxo), "
                "protocol parameters (coefficient, constant, extra fees) and a store whose total is swept densely around every "
                "CBOR width boundary of the change output (24, 2^8, 2^16, 2^32) plus a coarse grid; resolved by the real "
                "resolve_tx with the recording compiler. non-trivial: the resolution ran at least two rounds; distinct = "
                "distinct (template, pparams, store) triples.")
    rep.assumptions = ["TLC 1.8, Json module", "recording Compiler wrapper (decodes every round's payload with the driver's CBOR reader)",
                       "redeemer execution-unit fees are not part of the fee (as in the code and the property)"]
    core.build_driver()
    quick = tier == "quick"
    design(rep, quick)
    rng = random.Random(seed)
    # incl. parameter sets with a small fee (2- and 3-byte CBOR fee field), where the payload can shrink between rounds
    pp = [(44, 155381, None), (1, 2, None), (0, 0, 0), (1000, 1000000, 5), (44, 155381, 0), (44, 1000, 0), (1, 2, 0)]
    if not quick:
        pp += [(7, 0, None), (500, 10, 123456), (999, 999999, None), (2, 155381, 1)]
    jobs, heads = sweep_jobs(pp, quick, rng)
    rep.evaluations = len(jobs)
    tr, evs = run_jobs(jobs, heads, "c05", 8 if quick else 12)
    return finish_c05(rep, tr, evs, jobs, heads)


def sweep_jobs(pp, quick, rng):
    """resolutions of the transfer templates with store totals swept around every CBOR width boundary of the change
    output, inside the fee window, and on a coarse grid (shared by C05, which judges the rounds, and C14, which only
    asks that each resolution ends)"""
    tnames = ["transfer", "transfer_nofee_min", "transfer_min"]
    jobs, heads = [], []
    q = 2_000_000
    for (a, b, extra) in pp:
        c = cfg(a, b, extra)
        for tn in tnames:
            f0 = calibrate(tn, q, c)
            if f0 is None:
                raise core.ToolError(f"calibration failed for {tn} {c}")
            first = q if KIND[tn] == "transfer" else 0
            amounts = set()
            span = 6 * a + 12
            stepd = max(1, a // (6 if quick else 40))
            for boundary in (24, 256, 65536, 2**32):
                for d in range(-span, span + 1, stepd):
                    amounts.add(boundary + first + f0 + d)
            for coarse in (3_000_000, 10_000_000, 2**31, 2**40, 2**62, q + f0, q + f0 - 1, 1):
                amounts.add(coarse)
            # funds inside the window between what the first round needs (fee 0) and what the last one needs: a later
            # round fails although the first succeeded, and the only admissible results are an error or a fixed point
            for k in (0, 1, f0 // 3, f0 // 2, f0 - 1, f0, f0 + 1, f0 + 1000, 2 * f0):
                amounts.add(q + k)
                amounts.add(k + 1)
            for amt in sorted(x for x in amounts if x > 0):
                split = [amt] if rng.random() < 0.7 else [amt // 2, amt - amt // 2]
                rounds = rng.choice([3, 3, 5])
                # (every fourth resolution runs on an instance that was built under another margin and reconfigured)
                cj = dict(c, construct="reconfigured") if len(jobs) % 4 == 3 else c
                jobs.append({"id": len(jobs), "cmd": "resolve", "cfg": cj, "steps": [step(tn, q, split, rounds)], "compare_fresh": False})
                heads.append(case_event([tn], q, split, c, rounds))
        # the fee itself at a CBOR width boundary: the constant is chosen so that the first estimate (built on the fee-0
        # payload) sits just below 2^16 (2^8 for a zero coefficient is out of reach) and a later one just above -- the
        # payload keeps growing for one round more than usual; caps of 3 and 5 rounds
        if a > 0 and extra in (0, None):
            margin = 200_000 if extra is None else 0
            for tn in tnames:
                f0 = calibrate(tn, q, c)
                ln = (f0 - b - margin) // a            # payload length of a settled resolution
                for wb in (65536,):
                    if wb - margin - a * ln <= 0:
                        continue
                    for d in range(-8, 9):
                        b2 = wb - margin - a * ln + d * max(1, a // 2)
                        if b2 < 0:
                            continue
                        c2 = cfg(a, b2, extra)
                        for rounds in (3, 5):
                            amt = [50_000_000]
                            jobs.append({"id": len(jobs), "cmd": "resolve", "cfg": c2, "steps": [step(tn, q, amt, rounds)], "compare_fresh": False})
                            heads.append(case_event([tn], q, amt, c2, rounds))
        # every template at the edge quantities (nothing sent: optional outputs come out empty and are dropped; one
        # lovelace; a negative amount), against a comfortable and a tight store
        for tn in sorted(SRC):
            for q2 in (0, 1, -1, q):
                for amounts in ([50_000_000], [q2 + 200_000 if q2 > 0 else 200_000], [3_000_000, 4_000_000]):
                    rounds = rng.choice([3, 5])
                    jobs.append({"id": len(jobs), "cmd": "resolve", "cfg": c, "steps": [step(tn, q2, amounts, rounds)], "compare_fresh": False})
                    heads.append(case_event([tn], q2, amounts if tn not in TIGHT else [q2], c, rounds))
    return jobs, heads


def finish_c05(rep, tr, evs, jobs, heads):
    rep.add_trace(tr)
    for b in tr.bad:
        if b["why"] in C05_REASONS:
            j = jobs[b["case"]]
            rep.violation(sig_of(b), f"{b['why']} {b['detail']}", {"cmd": "resolve", "job": j, "head": heads[b["case"]],
                                                                   "why": b["why"], "detail": b["detail"]})
    outcomes = {}
    for j, e in zip(jobs, evs):
        nr = sum(1 for x in e if x["ev"] == "Round")
        res = [x for x in e if x["ev"] == "Result"][-1]
        outcomes[res["outcome"]] = outcomes.get(res["outcome"], 0) + 1
        if nr >= 2:
            rep.distinct.add(core.digest(j))
    rep.extra["outcomes"] = outcomes
    canary_c05(rep, evs)
    k = len(jobs) // 2
    rep.samples = [{"cfg": jobs[k]["cfg"], "template": jobs[k]["steps"][0]["source"], "store": jobs[k]["steps"][0]["store"]},
                   {"trace_events": [{kk: v for kk, v in x.items() if kk not in ("bound", "inputs")} for x in evs[k][1:5]]}]
    return rep.finish()


def canary_c05(rep, evs):
    a = None
    for e in evs:
        if sum(1 for x in e if x["ev"] == "Round") >= 2 and e[-1].get("outcome") == "ok":
            a = copy.deepcopy(e)
            break
    if a is None:
        raise core.ToolError("canary: no converged case")
    a[-1]["body_fee"] = I(int(a[-1]["body_fee"]["I"]) + 1)
    b = copy.deepcopy(a)
    b[-1]["body_fee"] = a[-1]["fee"]
    for x in b:
        if x["ev"] == "Round" and x["n"] == 2:
            x["body_fee"] = I(int(x["body_fee"]["I"]) + 1)
    tr = core.tlc_trace("Trace_ResolveLoop", [a, b], "c05_canary", nproc=1)
    whys = {(x["case"], x["why"]) for x in tr.bad}
    if not ({(0, "fixed-point"), (1, "fee-in")} <= whys):
        raise core.ToolError(f"canary not rejected: binding broken ({tr.bad[:4]})")
    rep.extra["canary_rejected"] = True


HIST_CFG = """CONSTANTS
  Templates = {{{tpls}}}
  Targets = {{{targets}}}
  MaxHist = {n}
INIT Init
NEXT Next
INVARIANTS EmitCase
CHECK_DEADLOCK FALSE
"""


def check_c20(tier, seed):
    rep = core.Report("C20", tier, seed)
    rep.rule = ("a case is a history of 0..MaxHist earlier resolutions (templates with 0, 1, 2, 3 and 5 outputs, with and without "
                "min_utxo, succeeding or failing) on one compiler instance followed by a target resolution, compared with the "
                "same target on a fresh identically configured instance; TLC enumerates every history x target. non-trivial: "
                "the history is non-empty and the target or a history member uses min_utxo; distinct = distinct (history, "
                "target, store) triples.")
    rep.assumptions = ["TLC 1.8, Json module", "recording Compiler wrapper; both instances are built from the same configuration",
                       "errors are compared by kind (variant name), not message"]
    core.build_driver()
    quick = tier == "quick"
    design(rep, quick)
    tpls = ["out0", "out1", "out3_min2", "out5", "transfer", "transfer_min", "fail", "big_datum_tight", "optional_drop_min",
            "optional_only_min", "mint_v1", "mint_v2", "mint_v3", "meta_674_order", "meta_1_order", "meta_674_other"]
    targets = ["transfer_min", "out3_min2", "transfer", "out1", "fail", "optional_drop_min", "optional_only_min",
               "mint_v1", "mint_v2", "mint_v3", "meta_674_order", "meta_1_order"]
    qq = lambda xs: ", ".join('"%s"' % x for x in xs)  # noqa
    g = core.tlc_mc("MC_History", HIST_CFG.format(tpls=qq(tpls), targets=qq(targets), n=2 if quick else 3),
                    "c20_hist", workers=4, timeout=900)
    rep.add_tlc(g)
    rep.exhaustive = True
    rng = random.Random(seed)
    extra = []
    if not quick:
        for _ in range(1500):
            extra.append({"hist": [rng.choice(tpls) for _ in range(4)], "target": rng.choice(targets)})
    jobs, heads = [], []
    c = cfg(44, 155381, None)
    q = 2_000_000
    # quantities of the earlier resolutions and of the target: the same, or apart by one CBOR width step in either
    # direction (the earlier transaction a few bytes longer or shorter than the target), or nothing sent at all
    QS = [(q, q), (5_000_000_000, 4_000_000_000), (4_000_000_000, 5_000_000_000), (70_000, 60_000), (60_000, 70_000),
          (300, 200), (20, 30), (0, q), (q, 0), (0, 0)]
    for case in g.cases + extra:
        names = list(case["hist"]) + [case["target"]]
        # (the full list where every step writes the quantity into an output; elsewhere the sizes do not depend on it)
        sens = {"transfer", "out3_min2", "optional_drop_min", "optional_only_min", "big_datum_tight", "fail"}
        for (qh, qt) in (QS if case["hist"] and set(names) <= sens else [(q, q), (0, 0)]):
            for amounts in (([50_000_000], [3_000_000, 2**32 + 2_400_000], [3_000_000]) if (qh, qt) == (q, q) else ([2**34],)):
                qs = [qh] * len(case["hist"]) + [qt]
                steps = [step(n, qq_, amounts) for n, qq_ in zip(names, qs)]
                jobs.append({"id": len(jobs), "cmd": "resolve", "cfg": c, "steps": steps, "compare_fresh": True})
                h = case_event(names, q, amounts, c, 3)
                for t_, qq_, n_ in zip(h["tpls"], qs, names):
                    t_["send"] = I(qq_)
                if names[-1] in TIGHT:
                    h["store"] = [{"ref": u["ref"], "lovelace": u["assets"][0]["n"]} for u in store([qt])]
                heads.append(h)
                if case["hist"] and any("min" in n for n in names):
                    rep.distinct.add(core.digest([names, amounts, qh, qt]))
    rep.evaluations = len(jobs)
    tr, evs = run_jobs(jobs, heads, "c20", 8 if quick else 12)
    rep.add_trace(tr)
    for b in tr.bad:
        if b["why"] in C20_REASONS:
            j = jobs[b["case"]]
            names = [t["name"] for t in heads[b["case"]]["tpls"]]
            rep.violation(sig_of(b), f"{b['why']} {b['detail']} history={names[:-1]} target={names[-1]}",
                          {"cmd": "resolve", "job": j, "head": heads[b["case"]], "why": b["why"], "detail": b["detail"]})
    canary_c20(rep, evs)
    k = len(jobs) // 3
    rep.samples = [{"history_then_target": [t["name"] for t in heads[k]["tpls"]]},
                   {"trace_events": [{kk: v for kk, v in x.items() if kk not in ("bound", "inputs")} for x in evs[k][1:6]]}]
    return rep.finish()


def canary_c20(rep, evs):
    a = None
    for e in evs:
        res = [x for x in e if x["ev"] == "Result"]
        if len(res) >= 2 and res[-1]["outcome"] == "ok" and res[-2]["outcome"] == "ok":
            a = copy.deepcopy(e)
            break
    if a is None:
        raise core.ToolError("canary: no comparable case")
    a[-1]["digest"] = "00" * 32
    # keep the result self-consistent so that only the comparison can reject it
    for x in reversed(a[:-1]):
        if x["ev"] == "Round":
            x["digest"] = "00" * 32
            break
    tr = core.tlc_trace("Trace_ResolveLoop", [a], "c20_canary", nproc=1)
    if not any(x["why"] == "history-dependence" for x in tr.bad):
        raise core.ToolError(f"canary not rejected: binding broken ({tr.bad[:4]})")
    rep.extra["canary_rejected"] = True


def replay(doc):
    core.build_driver()
    r = doc["replay"]
    tr, evs = run_jobs([dict(r["job"], id=0)], [r["head"]], "rl_replay", 1)
    slim = [{k: v for k, v in x.items() if k not in ("bound", "inputs", "tpls", "store")} for x in evs[0]]
    print(core.json.dumps({"events": slim, "bad": tr.bad}, indent=1)[:30000])
    return 1 if tr.bad else 0
