from .buildcheck import check_c17 as check, replay  # noqa
