"""C06 (a template closes exactly when its reported parameters and queries are supplied) and
C07 (staged application is order independent, reduction idempotent).  Both are decided by
Trace_Staging on executions of the real apply_*/reduce/Node::apply/find_* functions."""
import copy
import random

from . import core

C06_REASONS = {"unreported-param", "unreported-query", "spec-walk", "residual", "refusal"}
C07_REASONS = {"idem", "meaning", "value", "failed", "confluence", "accepted", "panic"}
TOOL_REASONS = {"schedule", "projection"}

CFG_STAGING = """CONSTANTS
  Depth = {depth}
  Slots = {{{slots}}}
  ReduceModes = {{{modes}}}
INIT Init
NEXT Next
INVARIANTS SchedulesAreValid OracleDefined EmitCase
CHECK_DEADLOCK FALSE
"""
CFG_CLOSURE = """CONSTANTS
  Depth = {depth}
INIT Init
NEXT Next
INVARIANTS Reaches Closes EmitCase
CHECK_DEADLOCK FALSE
"""

CLOSURE_SCHEDS = [
    ["args", "inputs", "fees", "reduce"],
    ["fees", "reduce", "inputs", "reduce", "args", "reduce"],
    ["inputs", "args", "reduce", "fees", "reduce"],
]


def q(xs):
    return ", ".join('"%s"' % x for x in xs)


def env_for_driver(env):
    """The TLC-printed environment -> driver vocabulary (cfg numbers become plain)."""
    e = core.untlcify(env)
    cfg = dict(e["cfg"])
    out = {"args": e["args"], "inputs": e["inputs"], "fee": e["fee"],
           "cfg": {"network": cfg["network"], "slot": cfg["slot"], "ts": cfg["ts"], "cpb": cfg["cpb"],
                   "a": 44, "b": 155381, "cost_models": "all"}}
    return out


STEP_TERMS = 2       # schedules per template whose intermediate templates are reported and evaluated by TLC


def run_group(groups, env, refusals, tag, nproc):
    """groups: list of (tx, [scheds], kind).  Returns (driver results, trace result, events)."""
    denv = env_for_driver(env)
    jobs = []
    for i, (tx, scheds, kind) in enumerate(groups):
        jobs.append({"id": i, "cmd": "staging", "tx": core.untlcify(tx), "env": denv,
                     "scheds": scheds, "refusals": refusals, "step_terms": STEP_TERMS})
    results = core.run_driver(jobs)
    evs = []
    for i, (tx, scheds, kind) in enumerate(groups):
        res = results[i]
        head = [{"ev": "Case", "tx": core.untlcify(tx), "env": core.untlcify(env), "kind": kind}]
        if "events" not in res:
            evs.append(head + [{"ev": "Final", "outcome": "panic", "stage": "driver",
                                "site": "abort", "msg": str(res)[:100]}])
            continue
        body = res["events"]
        for ev in body:
            if ev["ev"] == "Sched":
                ev["kind"] = kind
        evs.append(head + body)
    tr = core.tlc_trace("Trace_Staging", evs, tag, nproc=nproc)
    return results, tr, evs


def sig_of(b):
    d = b["detail"]
    w = b["why"]
    if w == "panic":
        return f"panic|{d.get('stage')}|{d.get('site')}|{d.get('msg')}"
    if w == "failed":
        return f"failed|{d.get('stage')}|{d.get('kind')}"
    if w == "value":
        return f"value|{d.get('tag')}"
    if w == "meaning":
        return f"meaning|{d.get('stage')}|{d.get('tag')}"
    if w in ("unreported-param", "unreported-query", "spec-walk", "residual"):
        return w
    if w == "refusal":
        return f"refusal|{d.get('outcome')}"
    return f"{w}|{d.get('stage', '')}"


def report_bad(rep, tr, groups, evs, reasons, extra_sig=None):
    for b in tr.bad:
        if b["why"] in TOOL_REASONS:
            raise core.ToolError(f"harness inconsistency: {b} in case {b['case']}")
        if b["why"] not in reasons:
            continue
        tx, scheds, kind = groups[b["case"]]
        sig = sig_of(b)
        if extra_sig:
            sig = extra_sig(sig, b, groups[b["case"]], evs[b["case"]])
        # locate the schedule the bad event belongs to
        sched = None
        # line numbers are per chunk; recover by scanning the case's events is not possible from
        # the chunk line alone, so the replay carries all schedules of the template
        rep.violation(sig, f"{b['why']} {b['detail']}",
                      {"cmd": "staging", "tx": core.untlcify(tx), "scheds": scheds, "kind": kind,
                       "why": b["why"], "detail": b["detail"]})


# ----------------------------------------------------------------------------------- C07
def check_c07(tier, seed):
    rep = core.Report("C07", tier, seed)
    rep.rule = ("a case is one template of the slot x expression matrix (TirGen.SlotUniverse) together with one "
                "complete path of the staging machine (every order of args/inputs/fees/compiler-ops allowed by operand "
                "availability, with/without reduce between stages); executed on the real apply_*/Node::apply/reduce. "
                "non-trivial: the template contains at least one foldable operator or coercion and the schedule "
                "differs from the resolver's own (args, fees, cops, reduce, inputs, reduce); distinct = distinct "
                "(template, schedule) pairs.")
    rep.assumptions = ["TLC 1.8, Json module", "Tir.Eval is the oracle only on the typed universe (Unspec elsewhere)",
                       "driver projection tirj.rs / tx_values order = Tir.TxKids",
                       "inputs are supplied directly (selection is C03/C04)"]
    core.build_driver()
    quick = tier == "quick"
    runs = []
    if quick:
        runs.append(dict(depth=1, slots=["out_amount", "since", "out_datum", "meta_value", "mint_amount",
                                         "out_address", "withdraw_amount", "min_amount"], modes=["all"]))
        runs.append(dict(depth=0, slots=["out_amount", "until", "input_redeemer"], modes=["free"]))
        runs.append(dict(depth=1, slots=["since"], modes=["free"]))
    else:
        runs.append(dict(depth=2, slots=["out_amount", "since", "until", "out_datum", "meta_value", "meta_key",
                                         "mint_amount", "burn_amount", "out_address", "withdraw_amount",
                                         "withdraw_credential", "min_amount", "signer", "reference",
                                         "second_out", "mint_redeemer", "input_redeemer"], modes=["all"]))
        runs.append(dict(depth=1, slots=["out_amount", "since", "out_datum", "meta_value", "min_amount",
                                         "second_out"], modes=["free"]))
    # design level: the reducer model is idempotent and meaning preserving for every subset of applied
    # stages; with the pinned code's deviation (property index not a component) TLC must find a counterexample
    rcfg = """CONSTANTS
  Depth = 1
  IndexIsComponent = {idx}
  Slots = {{{slots}}}
INIT Init
NEXT Next
INVARIANTS Idempotent MeaningPreserved ApplicationPreserves
CHECK_DEADLOCK FALSE
"""
    rslots = ["since", "out_amount"] if quick else ["since", "until", "out_amount", "out_datum", "meta_value", "min_amount", "withdraw_amount", "second_out"]
    rr = core.tlc_mc("MC_Reducer", rcfg.format(idx="TRUE", slots=q(rslots)), "c07_reducer", workers=4, timeout=1800, coverage=True)
    rep.add_tlc(rr)
    rep.extra["reducer_model_states"] = rr.distinct
    rd = core.tlc_mc("MC_Reducer", rcfg.format(idx="FALSE", slots=q(["since"])), "c07_reducer_dev", workers=2, timeout=900,
                     expect_violation=True)
    rep.notes.append(f"deviation IndexIsComponent=FALSE: TLC finds a counterexample to {rd.violated} on the reducer model")
    groups_by = {}
    env = None
    for k, r in enumerate(runs):
        res = core.tlc_mc("MC_Staging", CFG_STAGING.format(depth=r["depth"], slots=q(r["slots"]), modes=q(r["modes"])),
                          f"c07_mc{k}", workers=6 if quick else 12, timeout=2400)
        rep.add_tlc(res)
        env = res.info[0]["env"]
        for c in res.cases:
            key = core.canon(c["tx"])
            g = groups_by.setdefault(key, (c["tx"], []))
            if c["sched"] not in g[1]:
                g[1].append(c["sched"])
    groups = [(tx, scheds, "full") for tx, scheds in groups_by.values()]
    rep.exhaustive = True
    rep.extra["templates"] = len(groups)
    nsched = sum(len(g[1]) for g in groups)
    rep.extra["schedules"] = nsched
    rep.evaluations = nsched
    results, tr, evs = run_group(groups, env, False, "c07", nproc=8 if quick else 12)
    rep.add_trace(tr)
    rep.traces = nsched
    resolver_own = ["args", "fees", "cops", "reduce", "inputs", "reduce"]
    foldable = ('"add"', '"sub"', '"concat"', '"negate"', '"property"', '"into_assets"', '"into_datum"', '"c_')
    for tx, scheds, _ in groups:
        c = core.canon(tx)
        if any(f in c for f in foldable):
            for s in scheds:
                if s != resolver_own:
                    rep.distinct.add(core.digest([c, s]))
    report_bad(rep, tr, groups, evs, C07_REASONS)
    canary_c07(rep, groups, evs)
    g0 = groups[0]
    rep.samples = [{"template": core.untlcify(g0[0]), "schedules": g0[1][:3]},
                   {"trace_events": evs[0][1:8]}]
    return rep.finish()


def canary_c07(rep, groups, evs):
    # corrupt one final value and one idempotence flag; both must be rejected
    src = None
    for e in evs:
        if any(ev["ev"] == "Final" and ev.get("outcome") == "ok" for ev in e):
            src = copy.deepcopy(e)
            break
    if src is None:
        raise core.ToolError("canary: no successful schedule at all")
    a = copy.deepcopy(src)
    for ev in a:
        if ev["ev"] == "Final" and ev.get("outcome") == "ok":
            ev["values"][0] = {"k": "number", "num": core.I(12345)}
            break
    b = copy.deepcopy(src)
    for ev in b:
        if ev["ev"] == "Step" and ev.get("idem") == "yes":
            ev["idem"] = "no"
            break
    # an intermediate template whose first component no longer denotes what the template denotes
    c = copy.deepcopy(src)
    for ev in c:
        if ev["ev"] == "Step" and ev.get("terms"):
            ev["terms"][0] = {"k": "number", "num": core.I(12345)}
            break
    tr = core.tlc_trace("Trace_Staging", [a, b, c], "c07_canary", nproc=1)
    whys = {(x["case"], x["why"]) for x in tr.bad}
    if not ({(0, "value"), (1, "idem"), (2, "meaning")} <= whys):
        raise core.ToolError(f"canary not rejected: binding broken ({tr.bad[:3]})")
    rep.extra["canary_rejected"] = True


# ----------------------------------------------------------------------------------- C06
def check_c06(tier, seed):
    rep = core.Report("C06", tier, seed)
    rep.rule = ("a case is a template holding one unresolved leaf (value/env/party parameter, input read plain / as "
                "assets / as datum, fees, compiler op over a parameter, query with nested parameters) under 0..Depth "
                "wrappers (every IR node type x child position) in every top-level slot of the transaction; the real "
                "find_params/find_queries are compared with two independent walks (spec Kids, driver serde walk), all "
                "reported parameters, queries and fees are applied in three orders and the residual walk must be empty; "
                "resolve_tx must refuse with MissingTxArg for every reported parameter removed in turn. non-trivial: "
                "the leaf sits under at least one wrapper or in a non-output slot and the closure run reached the "
                "final reduce; distinct = distinct templates.")
    rep.assumptions = ["TLC 1.8, Json module", "driver serde walk over ciborium::Value of the real Tx",
                       "type-incompatible fillers make some closure runs fail in reduce; those are counted but only "
                       "their reporting/refusal half is judged"]
    core.build_driver()
    quick = tier == "quick"
    depth = 1 if quick else 2
    res = core.tlc_mc("MC_Closure", CFG_CLOSURE.format(depth=depth), "c06_mc", workers=6 if quick else 12, timeout=2400)
    rep.add_tlc(res)
    env = res.info[0]["env"]
    groups = [(c["tx"], CLOSURE_SCHEDS, "closure") for c in res.cases]
    meta = [(c["slot"], c["wraps"], c["leaf"]) for c in res.cases]
    rep.exhaustive = True
    # plus the typed templates of the staging matrix (language-shaped)
    res2 = core.tlc_mc("MC_Staging", CFG_STAGING.format(depth=1, slots=q(["out_amount", "since", "out_datum", "meta_value",
                       "min_amount", "withdraw_amount", "reference", "signer"]), modes=q(["all"])),
                       "c06_mc2", workers=6, timeout=1200)
    rep.add_tlc(res2)
    seen = set()
    env2 = res2.info[0]["env"]
    groups2 = []
    for c in res2.cases:
        k = core.canon(c["tx"])
        if k not in seen:
            seen.add(k)
            groups2.append((c["tx"], CLOSURE_SCHEDS, "closure"))
    rep.extra["templates_one_hole"] = len(groups)
    rep.extra["templates_typed"] = len(groups2)
    rep.evaluations = (len(groups) + len(groups2)) * len(CLOSURE_SCHEDS)

    def extra_sig(sig, b, group, evs):
        return sig

    results, tr, evs = run_group(groups, env, True, "c06", nproc=8 if quick else 12)
    rep.add_trace(tr)
    # signatures carry the abstract position of the hole
    pos = {}
    for b in tr.bad:
        if b["why"] in TOOL_REASONS:
            raise core.ToolError(f"harness inconsistency: {b}")
        if b["why"] not in C06_REASONS:
            continue
        slot, wraps, leaf = meta[b["case"]]
        inner = wraps[0] if wraps else "id"     # the wrapper directly around the leaf
        sig = f"{sig_of(b)}|{inner}"
        tx, scheds, kind = groups[b["case"]]
        rep.violation(sig, f"{b['why']} {b['detail']} slot={slot} wraps={wraps} leaf={leaf}",
                      {"cmd": "staging", "tx": core.untlcify(tx), "scheds": scheds, "kind": kind, "refusals": True,
                       "why": b["why"], "detail": b["detail"], "slot": slot, "wraps": wraps, "leaf": leaf})
    results2, tr2, evs2 = run_group(groups2, env2, True, "c06b", nproc=8)
    rep.add_trace(tr2)
    report_bad(rep, tr2, groups2, evs2, C06_REASONS)
    # the same templates with the EMPTY set supplied for every reported query (a wallet that holds nothing more): a set
    # was supplied, so the query is answered and the template closes all the same (values are not judged here)
    env3 = copy.deepcopy(env)
    for nm in env3["inputs"]:
        env3["inputs"][nm]["utxos"] = []
    rng3 = random.Random(seed + 3)
    sample3 = list(groups)
    rng3.shuffle(sample3)
    sample3 = sample3[:1200 if quick else 12000]
    results3, tr3, evs3 = run_group(sample3, env3, False, "c06c", nproc=8)
    rep.add_trace(tr3)
    rep.extra["templates_closed_over_empty_sets"] = len(sample3)
    report_bad(rep, tr3, sample3, evs3, {"residual", "unreported-query", "unreported-param"},
               lambda sig, b, g, e: sig + "|empty-set")
    closed = 0
    for i, e in enumerate(evs):
        if any(ev["ev"] == "Final" and ev.get("outcome") == "ok" for ev in e):
            closed += 1
            slot, wraps, leaf = meta[i]
            if wraps or not slot.startswith("output"):
                rep.distinct.add(core.digest(groups[i][0]))
    rep.extra["closure_runs_reaching_final_reduce"] = closed
    # the argument-supplying facade: source programs of MC_Lang lowered by Workspace, their arguments supplied in one call,
    # in two calls and one by one (Trace_Lang!FacadeEv)
    from . import langcheck
    lc = langcheck.gen(rep, ["out_amount", "out_datum", "mint_amount", "meta_value", "signer", "min_amount"], 0 if quick else 1,
                       [1], "c06_facade", workers=6)
    rng = random.Random(seed)
    rng.shuffle(lc)
    lc = lc[:120 if quick else 2000]
    fjobs, fevs, ftr = langcheck.run_cases(lc, "c06_facade", seed, 4, layouts=(0,), facade=True)
    rep.add_trace(ftr)
    rep.extra["facade_programs"] = len(lc)
    langcheck.collect(rep, ftr, lc, fjobs, lambda b: b["why"] in ("facade-residual", "facade-history") or
                      (b["why"] == "panic" and b["detail"].get("stage") == "facade"),
                      lambda sig, b, c: f"{b['why']}|{b['detail'].get('calls', '')}")
    fc = [copy.deepcopy(e) for e in fevs if any(x.get("ev") == "Facade" and x.get("outcome") == "ok" for x in e)][:1]
    if not fc:
        raise core.ToolError("canary: no facade run")
    for x in fc[0]:
        if x.get("ev") == "Facade":
            x["two_calls_same"] = False
    ctr = core.tlc_trace("Trace_Lang", fc, "c06_facade_canary", nproc=1)
    if not any(x["why"] in ("facade-history", "facade-residual") for x in ctr.bad):
        raise core.ToolError(f"facade canary not rejected: binding broken ({ctr.bad[:2]})")
    canary_c06(rep, evs)
    rep.samples = [{"slot": meta[7][0], "wraps": meta[7][1], "leaf": meta[7][2], "template": core.untlcify(groups[7][0])},
                   {"trace_events": evs[7][1:5]}]
    return rep.finish()


def canary_c06(rep, evs):
    a = None
    for e in evs:
        t = [ev for ev in e if ev["ev"] == "Template"]
        if t and t[0]["find_params"]:
            a = copy.deepcopy(e)
            break
    if a is None:
        raise core.ToolError("canary: no template with parameters")
    for ev in a:
        if ev["ev"] == "Template":
            ev["find_params"] = ev["find_params"][1:]      # pretend the code did not report one
            break
    b = copy.deepcopy(a)
    tr = core.tlc_trace("Trace_Staging", [a], "c06_canary", nproc=1)
    if not any(x["why"] in ("unreported-param", "spec-walk") for x in tr.bad):
        raise core.ToolError(f"canary not rejected: binding broken ({tr.bad[:3]})")
    rep.extra["canary_rejected"] = True


def replay(doc):
    core.build_driver()
    r = doc["replay"]
    res = core.tlc_mc("MC_Closure", CFG_CLOSURE.format(depth=0), "replay_env", workers=2, timeout=300)
    env = res.info[0]["env"] if doc["property"] == "C06" else None
    if env is None:
        res = core.tlc_mc("MC_Staging", CFG_STAGING.format(depth=0, slots=q(["since"]), modes=q(["all"])),
                          "replay_env", workers=2, timeout=300)
        env = res.info[0]["env"]
    groups = [(r["tx"], r["scheds"], r.get("kind", "full"))]
    results, tr, evs = run_group(groups, env, bool(r.get("refusals")), "replay", nproc=1)
    print(core.json.dumps({"events": evs[0][1:], "bad": tr.bad}, indent=1)[:20000])
    return 1 if tr.bad else 0
