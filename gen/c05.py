from .resolveloop import check_c05 as check, replay  # noqa
