from .resolveloop import check_c20 as check, replay  # noqa
