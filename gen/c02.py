from .langcheck import check_c02 as check, replay  # noqa
