"""C13: a program the analyzer accepts can always be lowered (semantic mutants of valid programs)."""
import random

from . import core, pp
from .frontend import run_sources, sig_of, canary, locate

MCFG = """CONSTANTS
  Depth = 1
  Double = {double}
INIT Init
NEXT Next
INVARIANTS EmitCase
CHECK_DEADLOCK FALSE
"""

HEAD = """env { e_int: Int, }
party Sender;
party Receiver;
policy Pol = 0x11111111111111111111111111111111111111111111111111111111;
asset Tok = 0x11111111111111111111111111111111111111111111111111111111."a";
type Rec { f1: Int, f2: Bytes, }
type Var { A { x: Int, y: Bytes, }, B, C { z: Int, }, }
type Alias = Rec;
"""


def whole_program_mutants():
    """mutants that are not a single expression: local chains, directives lacking fields, aliases"""
    out = []
    for n in range(1, 13):
        chain = " ".join("l%d: l%d," % (i + 1, i) for i in range(1, n))
        out.append(({"name": f"local_chain_{n}"}, HEAD + "tx t(n: Int) { locals { l1: n, %s } input source { from: Sender, min_amount: Ada(l%d), } output { to: Receiver, amount: Ada(l%d), } }" % (chain, n, n)))
        rev = " ".join("l%d: l%d," % (i, i + 1) for i in range(1, n))
        out.append(({"name": f"local_chain_rev_{n}"}, HEAD + "tx t(n: Int) { locals { %s l%d: n, } output { to: Receiver, amount: Ada(l1), } }" % (rev, n)))
    out.append(({"name": "local_cycle"}, HEAD + "tx t(n: Int) { locals { a: b, b: a, } output { to: Receiver, amount: Ada(a), } }"))
    out.append(({"name": "local_self"}, HEAD + "tx t(n: Int) { locals { a: a + 1, } output { to: Receiver, amount: Ada(a), } }"))
    for fields, nm in (("amount: 1, redeemer: (),", "no_from"), ("from: Sender, redeemer: (),", "no_amount"), ("from: Sender, amount: 1,", "no_redeemer"),
                       ("redeemer: (),", "only_redeemer")):
        out.append(({"name": "withdrawal_" + nm}, HEAD + "tx t(n: Int) { input source { from: Sender, min_amount: fees, } cardano::withdrawal { %s } }" % fields))
    for fields, nm in (("version: 2,", "no_script"), ("script: 0xabcd,", "no_version"), ("version: b, script: n,", "swapped_types")):
        out.append(({"name": "plutus_witness_" + nm}, HEAD + "tx t(n: Int, b: Bytes) { input source { from: Sender, min_amount: fees, } cardano::plutus_witness { %s } }" % fields))
    for fields, nm in (("amount: Ada(1),", "no_to"), ("to: Sender,", "no_amount"), ("to: Sender, amount: Ada(1), version: 3,", "version_only"),
                       ("to: Sender, amount: Ada(1), script: 0xabcd,", "script_only")):
        out.append(({"name": "publish_" + nm}, HEAD + "tx t(n: Int) { input source { from: Sender, min_amount: fees, } cardano::publish { %s } }" % fields))
    out.append(({"name": "donation_bytes"}, HEAD + "tx t(b: Bytes) { cardano::treasury_donation { coin: b, } }"))
    out.append(({"name": "vote_delegation"}, HEAD + "tx t(b: Bytes) { cardano::vote_delegation_certificate { drep: b, stake: Sender, } }"))
    out.append(({"name": "alias_ctor"}, HEAD + "tx t(n: Int, b: Bytes) { output { to: Receiver, amount: Ada(1), datum: Alias { f1: n, f2: b, }, } }"))
    out.append(({"name": "alias_ctor_missing"}, HEAD + "tx t(n: Int) { output { to: Receiver, amount: Ada(1), datum: Alias { f1: n, }, } }"))
    out.append(({"name": "alias_to_primitive_ctor"}, HEAD + "type Num = Int; tx t(n: Int) { output { to: Receiver, amount: Ada(1), datum: Num { f1: n, }, } }"))
    # literals at the edge of what their position can hold: the output index of a UTxO reference (32 bits in the IR, 64 in
    # the syntax tree), numbers (64 bits in the syntax tree, 128 in the IR)
    ref = "0x" + "07" * 32
    for ix in (2**32 - 1, 2**32, 2**32 + 5, 2**33, 2**63, 2**64 - 1):
        out.append(({"name": f"wide_index_input_{ix}"}, HEAD + "tx t(n: Int) { input source { ref: %s#%d, } output { to: Receiver, amount: source - fees, } }" % (ref, ix)))
        out.append(({"name": f"wide_index_reference_{ix}"}, HEAD + "tx t(n: Int) { input source { from: Sender, min_amount: fees, } reference r { ref: %s#%d, } output { to: Receiver, amount: source - fees, } }" % (ref, ix)))
        out.append(({"name": f"wide_index_collateral_{ix}"}, HEAD + "tx t(n: Int) { input source { from: Sender, min_amount: fees, } collateral { ref: %s#%d, } output { to: Receiver, amount: source - fees, } }" % (ref, ix)))
        out.append(({"name": f"wide_index_policy_{ix}"}, HEAD + "policy Q { hash: 0x%s, ref: %s#%d, } tx t(n: Int) { input source { from: Sender, min_amount: fees, } mint { amount: AnyAsset(Q, \"x\", n), redeemer: (), } output { to: Receiver, amount: source - fees, } }" % ("44" * 28, ref, ix)))
        out.append(({"name": f"wide_index_datum_{ix}"}, HEAD + "tx t(n: Int) { output { to: Receiver, amount: Ada(1), datum: %s#%d, } }" % (ref, ix)))
    for num in (2**63 - 1, -2**63, 2**32, 2**31):
        out.append(({"name": f"wide_number_{num}"}, HEAD + "tx t(n: Int) { output { to: Receiver, amount: Ada(%d), datum: Rec { f1: %d, f2: 0x, }, } validity { until_slot: %d, } }" % (num, num, num)))
    # (valid programs) a chain of locals whose head is mentioned by ONE block other than an input or an output: every
    # block of a transaction sees the definitions as resolved as the outputs see them
    for depth in (1, 2, 3, 5):
        chain = "l1: n + 1, " + " ".join("l%d: l%d + %d," % (i + 1, i, i) for i in range(1, depth))
        head = "l%d" % depth
        io = "input source { from: Sender, min_amount: fees, } output { to: Receiver, amount: source - fees, }"
        users = {"validity": "validity { until_slot: %s, }" % head, "since": "validity { since_slot: %s, }" % head,
                 "mint": "mint { amount: AnyAsset(Pol, \"x\", %s), redeemer: (), }" % head,
                 "burn": "burn { amount: AnyAsset(Pol, \"x\", %s), redeemer: (), }" % head,
                 "metadata": "metadata { 1: %s, }" % head, "metadata_bare": None,
                 "withdrawal": "cardano::withdrawal { from: Sender, amount: %s, redeemer: (), }" % head,
                 "donation": "cardano::treasury_donation { coin: %s, }" % head,
                 "mint_redeemer": "mint { amount: Tok(1), redeemer: %s, }" % head,
                 "signers": None, "reference": None}
        for uname, block in users.items():
            if uname == "metadata_bare":
                src = "tx t(n: Int) { locals { %s } metadata { 1: %s, } }" % (chain, head)
            elif uname == "signers":
                bchain = "l1: b, " + " ".join("l%d: l%d," % (i + 1, i) for i in range(1, depth))
                src = "tx t(b: Bytes) { locals { %s } %s signers { %s, } }" % (bchain, io, head)
            elif uname == "reference":
                rchain = "l1: r, " + " ".join("l%d: l%d," % (i + 1, i) for i in range(1, depth))
                src = "tx t(r: UtxoRef) { locals { %s } %s reference rf { ref: %s, } }" % (rchain, io, head)
            else:
                src = "tx t(n: Int) { locals { %s } %s %s }" % (chain, io, block)
            out.append(({"name": f"chain_used_by_{uname}_{depth}"}, HEAD + src))
    # (valid programs) a parameter, local, input, party or env entry named like a built-in function and used as a plain
    # value: the user's definition is what the name means inside the transaction
    for fn in ("tip_slot", "min_utxo", "slot_to_time", "time_to_slot"):
        io = "input source { from: Sender, min_amount: fees, } output { to: Receiver, amount: source - fees, }"
        out.append(({"name": f"builtin_name_param_{fn}"}, HEAD + "tx t(%s: Int) { %s validity { until_slot: %s + 600, } }" % (fn, io, fn)))
        out.append(({"name": f"builtin_name_local_{fn}"}, HEAD + "tx t(n: Int) { locals { %s: n + 1, } %s validity { until_slot: %s, } }" % (fn, io, fn)))
        out.append(({"name": f"builtin_name_datum_{fn}"}, HEAD + "tx t(%s: Int) { output { to: Receiver, amount: Ada(%s), datum: Rec { f1: %s, f2: 0x01, }, } }" % (fn, fn, fn)))
        out.append(({"name": f"builtin_name_input_{fn}"}, HEAD + "tx t(n: Int) { input %s { from: Sender, min_amount: fees, } output { to: Receiver, amount: %s - fees, } }" % (fn, fn)))
        out.append(({"name": f"builtin_name_env_{fn}"}, HEAD.replace("env { e_int: Int, }", "env { e_int: Int, %s: Int, }" % fn) +
                    "tx t(n: Int) { output { to: Receiver, amount: Ada(%s), } }" % fn))
        out.append(({"name": f"builtin_name_party_{fn}"}, HEAD + "party %s; tx t(n: Int) { output { to: %s, amount: Ada(n), } }" % (fn, fn)))
    # a constructor without a case name on a type with several cases (there is no `Default` case to build)
    out.append(({"name": "implicit_ctor_variant"}, HEAD + "tx t(n: Int, b: Bytes) { output { to: Receiver, amount: Ada(1), datum: Var { x: n, y: b, }, } }"))
    out.append(({"name": "implicit_ctor_shared_fields"}, HEAD + "type Side { Buy { price: Int, }, Sell { price: Int, }, Hold { price: Int, }, } tx t(n: Int) { output { to: Receiver, amount: Ada(1), datum: Side { price: n, }, } }"))
    out.append(({"name": "implicit_ctor_units"}, HEAD + "type Flag { On, Off, Unknown, } tx t(n: Int) { output { to: Receiver, amount: Ada(1), datum: Flag {}, } }"))
    out.append(({"name": "implicit_ctor_single_case"}, HEAD + "type Ticket { Only { id: Int, }, } tx t(n: Int) { output { to: Receiver, amount: Ada(1), datum: Ticket { id: n, }, } }"))
    out.append(({"name": "output_no_to"}, HEAD + "tx t(n: Int) { output { amount: Ada(n), } }"))
    out.append(({"name": "output_no_amount"}, HEAD + "tx t(n: Int) { output { to: Receiver, } }"))
    out.append(({"name": "optional_with_datum"}, HEAD + "tx t(n: Int) { output ? o { to: Receiver, amount: Ada(n), datum: (), } }"))
    out.append(({"name": "input_no_fields"}, HEAD + "tx t(n: Int) { input source { } output { to: Receiver, amount: source, } }"))
    out.append(({"name": "duplicate_input"}, HEAD + "tx t(n: Int) { input a { from: Sender, } input a { from: Receiver, } }"))
    out.append(({"name": "duplicate_param"}, HEAD + "tx t(n: Int, n: Bytes) { output { to: Receiver, amount: Ada(n), } }"))
    out.append(({"name": "duplicate_tx"}, HEAD + "tx t(n: Int) { } tx t(n: Int) { }"))
    out.append(({"name": "two_collateral"}, HEAD + "tx t(n: Int) { collateral { from: Sender, } collateral { from: Receiver, } }"))
    out.append(({"name": "param_custom_type"}, HEAD + "tx t(r: Rec) { output { to: Receiver, amount: Ada(r.f1), datum: r, } }"))
    out.append(({"name": "param_list_index"}, HEAD + "tx t(l: List<Int>, i: Int) { output { to: Receiver, amount: Ada(l[i]), } }"))
    out.append(({"name": "param_map_type"}, HEAD + "tx t(m: Map<Int, Bytes>) { output { to: Receiver, amount: Ada(1), datum: m, } }"))
    out.append(({"name": "policy_ctor_no_hash"}, HEAD + "policy Q { script: 0xabcd, } tx t(n: Int) { mint { amount: AnyAsset(Q, \"x\", 1), } }"))
    out.append(({"name": "policy_ctor_ref"}, HEAD + "policy Q { hash: 0x11, ref: 0x" + "07" * 32 + "#1, } tx t(n: Int) { output { to: Q, amount: Ada(1), } }"))
    out.append(({"name": "datum_is_undefined"}, HEAD + "tx t(n: Int) { input source { from: Sender, datum_is: Missing, } output { to: Receiver, amount: Ada(source.f1), } }"))
    out.append(({"name": "datum_is_variant_prop"}, HEAD + "tx t(n: Int) { input source { from: Sender, datum_is: Var, } output { to: Receiver, amount: Ada(source.x), } }"))
    out.append(({"name": "utxo_ref_param_prop"}, HEAD + "tx t(r: UtxoRef) { reference x { ref: r, } output { to: Receiver, amount: Ada(1), datum: r.tx_hash, } }"))
    out.append(({"name": "anyasset_param_prop"}, HEAD + "tx t(a: AnyAsset) { output { to: Receiver, amount: a, datum: a.amount, } }"))
    # two things of one kind whose names differ only in letter case, both used (the IR folds the case of names)
    twins = {
        "input": "tx t(n: Int) { input Source { from: Sender, min_amount: Ada(n), } input source { from: Receiver, min_amount: Ada(1), } output { to: Receiver, amount: Source + source - fees, } }",
        "output": "tx t(n: Int) { input s { from: Sender, min_amount: fees + min_utxo(Change) + min_utxo(change), } output Change { to: Sender, amount: min_utxo(Change), } output change { to: Sender, amount: s - fees - min_utxo(Change), } }",
        "local": "tx t(n: Int) { locals { Amt: n + 1, amt: n + 2, } output { to: Receiver, amount: Ada(Amt) + Ada(amt), } }",
        "reference": "tx t(n: Int) { reference Rf { ref: 0x" + "07" * 32 + "#1, } reference rf { ref: 0x" + "07" * 32 + "#2, } output { to: Receiver, amount: Ada(n), } }",
        "tx": "tx t(n: Int) { output { to: Receiver, amount: Ada(n), } } tx T(n: Int) { output { to: Sender, amount: Ada(n), } }",
        "party": "party sender; tx t(n: Int) { input s { from: Sender, min_amount: Ada(n), } output { to: sender, amount: s - fees, } }",
        "policy": "policy pol = 0x" + "22" * 28 + "; tx t(n: Int) { mint { amount: AnyAsset(Pol, \"a\", n) + AnyAsset(pol, \"a\", n), } }",
        "asset": "asset tok = 0x" + "22" * 28 + ".\"b\"; tx t(n: Int) { output { to: Receiver, amount: Tok(n) + tok(n), } }",
        "type": "type rec { f1: Int, } tx t(n: Int, b: Bytes) { output { to: Receiver, amount: Ada(1), datum: Rec { f1: n, f2: b, }, } output { to: Sender, amount: Ada(1), datum: rec { f1: n, }, } }",
        "env": None,
        "field": "type Two { f: Int, F: Int, } tx t(n: Int) { output { to: Receiver, amount: Ada(1), datum: Two { f: n, F: n + 1, }, } }",
        "case": "type Cs { On { v: Int, }, on { v: Int, }, } tx t(n: Int) { output { to: Receiver, amount: Ada(1), datum: Cs::on { v: n, }, } }",
    }
    for kind, body in twins.items():
        if body is None:
            out.append(({"name": "case_twin_env"}, HEAD.replace("env { e_int: Int, }", "env { e_int: Int, E_Int: Int, }") +
                        "tx t(n: Int) { output { to: Receiver, amount: Ada(e_int) + Ada(E_Int), } }"))
        else:
            out.append(({"name": "case_twin_" + kind}, HEAD + body))
    # names of every kind in the positions of top-level definitions, with the defined thing used by a transaction
    head2 = HEAD.replace("env { e_int: Int, }", "env { e_int: Int, e_bytes: Bytes, }")
    kinds = {"env_bytes": "e_bytes", "env_int": "e_int", "party": "Sender", "policy": "Pol", "asset": "Tok", "type": "Rec",
             "undefined": "nowhere", "hex": "0x" + "22" * 28, "string": '"x"'}
    for kname, sym in kinds.items():
        uses = "tx t(n: Int) { input source { from: Sender, min_amount: fees, } output { to: Receiver, amount: Ada(1) + Tok2(n), } }"
        out.append(({"name": f"asset_policy_{kname}"}, head2 + f"asset Tok2 = {sym}.\"t\"; " + uses))
        out.append(({"name": f"asset_name_{kname}"}, head2 + f"asset Tok2 = 0x{'33' * 28}.{sym if kname not in ('hex', 'string') else sym}; " + uses))
        out.append(({"name": f"asset_unused_{kname}"}, head2 + f"asset Tok2 = {sym}.\"t\"; tx t(n: Int) {{ output {{ to: Receiver, amount: Ada(n), }} }}"))
        mint = "tx t(n: Int) { input source { from: Sender, min_amount: fees, } mint { amount: AnyAsset(Q, \"x\", n), } output { to: Q, amount: Ada(1), } }"
        out.append(({"name": f"policy_assign_{kname}"}, head2 + f"policy Q = {sym}; " + mint))
        out.append(({"name": f"policy_hash_{kname}"}, head2 + f"policy Q {{ hash: {sym}, }} " + mint))
        out.append(({"name": f"policy_script_{kname}"}, head2 + f"policy Q {{ hash: 0x{'44' * 28}, script: {sym}, }} " + mint))
    return out


def mutant_sources(rep, tier, seed):
    quick = tier == "quick"
    r = core.tlc_mc("MC_Mutants", MCFG.format(double="FALSE"), rep.pid.lower() + "_mut", workers=6, timeout=900)
    rep.add_tlc(r)
    cases = list(r.cases)
    if not quick:
        r2 = core.tlc_mc("MC_Mutants", MCFG.format(double="TRUE"), rep.pid.lower() + "_mut2", workers=12, timeout=1800)
        rep.add_tlc(r2)
        rng = random.Random(seed)
        more = list(r2.cases)
        rng.shuffle(more)
        cases += more[:20000]
    out = []
    for i, c in enumerate(cases):
        prog = core.untlcify(c["prog"])
        meta = {"name": c["name"] + "@" + c["slot"] + ("+" + c["name2"] + "@" + c["slot2"] if c["slot2"] != "none" else "")}
        out.append((meta, pp.layout(pp.program_tokens(prog), 2 if i % 3 else 0, seed + i)))
    out += whole_program_mutants()
    return out


def check(tier, seed):
    rep = core.Report("C13", tier, seed)
    rep.rule = ("a case is a semantic mutant of a valid program: one wrong expression (47 mutation operators: constructor with dropped / "
                "duplicated / renamed / unknown field, unknown case or type, missing spread, wrong arity of Ada / min_utxo / tip_slot / "
                "slot_to_time / concat / AnyAsset, a name of another symbol kind used as a value, malformed literals, property of a "
                "non-record, non-Int index, ill-typed arithmetic) in each of 12 expression slots, double mutants in the thorough tier, "
                "plus whole-program mutants (local chains 1..12 in both orders and cyclic, directives lacking fields, alias "
                "constructors, duplicate names, custom-typed parameters). For each: analyse, lower every tx, and run the facade. "
                "non-trivial: the mutant parses; distinct = distinct mutants.")
    rep.assumptions = ["TLC 1.8, Json module", "mutants rejected by the parser are C12 cases and only checked for the outcome alphabet"]
    core.build_driver()
    quick = tier == "quick"
    msrc = mutant_sources(rep, tier, seed)
    sources = [("mutant:" + m["name"], s) for m, s in msrc]
    rep.extra["mutants"] = len(sources)
    tr, evs, index = run_sources(sources, "c13", True, 8 if quick else 12, batch=20)
    rep.add_trace(tr)
    rep.traces = len(sources)
    rep.evaluations = len(sources)
    accepted = 0
    for e in evs:
        for x in e:
            if x["ev"] == "Analyzed":
                rep.distinct.add(core.digest(len(rep.distinct)))
                if x.get("n") == 0:
                    accepted += 1
    rep.extra["accepted_by_analyzer"] = accepted
    for b in tr.bad:
        if b["why"] not in ("lower-contract", "workspace-contract", "panic"):
            continue
        k = locate(evs[b["case"]], b["event"])
        src = sources[index[b["case"]][k]] if k < len(index[b["case"]]) else ("?", "")
        import re
        parts = [re.sub(r"\d+", "N", x.split("@")[0]) for x in src[0].split("+")]
        name = parts[0]
        if len(parts) > 1:
            # a double mutant: the lowering error comes from one of the two mistakes; if it is the recorded consequence of
            # either mistake taken alone it is that finding, otherwise the pair is something new
            known = {f["signature"] for f in core.load_known().get("findings", []) if f["property"] == rep.pid}
            alone = [p_ for p_ in parts if sig_of(b) + "|" + (p_ if p_.startswith("mutant:") else "mutant:" + p_) in known]
            name = (alone[0] if alone[0].startswith("mutant:") else "mutant:" + alone[0]) if alone else "+".join(parts)
        rep.violation(sig_of(b) + "|" + name, f"{b['why']} {b['detail']} {src[0]}",
                      {"cmd": "frontend", "source": src[1], "origin": src[0], "why": b["why"], "detail": b["detail"]})
    canary(rep, "c13")
    rep.samples = [{"origin": sources[k][0], "source": sources[k][1][-300:]} for k in (0, len(sources) // 2, len(sources) - 3)]
    return rep.finish()


from .frontend import replay  # noqa
