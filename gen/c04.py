from .selector import check_c04 as check, replay  # noqa
