from .buildcheck import check_c18 as check, replay  # noqa
