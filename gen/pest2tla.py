"""pest -> TLA+ grammar translator.

Reads crates/tx3-lang/src/tx3.pest and writes spec/Grammar.tla: every non-atomic rule becomes
a set of alternatives, each a sequence of symbols; `x*` / `x+` / `x?` are bounded to 0..2 / 1..2 /
0..1 repetitions; atomic rules (`@{..}`) and builtin character classes become terminals that are
given concrete lexemes by the realisation step (gen/frontend.py).  The output is never edited by
hand; `run.py setup` and every front-end check regenerate it from the grammar file.
"""
import itertools
import os
import re
import sys

MAX_ALTS_PER_RULE = 400


def tokenize(src):
    toks = []
    i = 0
    while i < len(src):
        c = src[i]
        if c.isspace():
            i += 1
        elif src.startswith("//", i):
            while i < len(src) and src[i] != "\n":
                i += 1
        elif c == '"':
            j = i + 1
            while src[j] != '"':
                j += 2 if src[j] == "\\" else 1
            toks.append(("str", src[i + 1:j].replace('\\"', '"').replace("\\\\", "\\")))
            i = j + 1
        elif c.isalpha() or c == "_":
            j = i
            while j < len(src) and (src[j].isalnum() or src[j] == "_"):
                j += 1
            toks.append(("id", src[i:j]))
            i = j
        elif c in "=~|*+?(){}!&@_$":
            toks.append(("op", c))
            i += 1
        else:
            raise ValueError(f"pest2tla: unexpected character {c!r} at {i}")
    return toks


class P:
    def __init__(self, toks):
        self.t = toks
        self.i = 0

    def peek(self):
        return self.t[self.i] if self.i < len(self.t) else ("eof", "")

    def take(self):
        x = self.peek()
        self.i += 1
        return x

    def rules(self):
        out = {}
        while self.peek()[0] != "eof":
            name = self.take()
            assert name[0] == "id", name
            assert self.take() == ("op", "=")
            mod = ""
            if self.peek() in (("op", "@"), ("op", "_"), ("op", "$"), ("op", "!")):
                mod = self.take()[1]
            elif self.peek() == ("id", "_"):
                mod = "_"
                self.take()
            assert self.take() == ("op", "{"), (name, self.peek())
            e = self.alt()
            assert self.take() == ("op", "}")
            out[name[1]] = (mod, e)
        return out

    def alt(self):
        items = [self.seq()]
        while self.peek() == ("op", "|"):
            self.take()
            items.append(self.seq())
        return ("alt", items) if len(items) > 1 else items[0]

    def seq(self):
        items = [self.post()]
        while self.peek() == ("op", "~"):
            self.take()
            items.append(self.post())
        return ("seq", items) if len(items) > 1 else items[0]

    def post(self):
        neg = False
        while self.peek() in (("op", "!"), ("op", "&")):
            neg = True
            self.take()
        t = self.take()
        if t == ("op", "("):
            e = self.alt()
            assert self.take() == ("op", ")")
        elif t[0] == "str":
            e = ("lit", t[1])
        elif t[0] == "id":
            e = ("ref", t[1])
        else:
            raise ValueError(f"pest2tla: unexpected token {t}")
        while self.peek() in (("op", "*"), ("op", "+"), ("op", "?")):
            e = ("rep", self.take()[1], e)
        if neg:
            return ("eps",)        # predicates consume nothing
        return e


def expand(e, atomic, depth=0):
    """-> list of alternatives, each a tuple of symbols ("lit", s) | ("nt", name) | ("tok", name)"""
    k = e[0]
    if k == "eps":
        return [()]
    if k == "lit":
        return [(("lit", e[1]),)]
    if k == "ref":
        n = e[1]
        if n in ("SOI", "EOI"):
            return [()]
        if n in atomic:
            return [(("tok", n),)]
        return [(("nt", n),)]
    if k == "alt":
        out = []
        for x in e[1]:
            out.extend(expand(x, atomic, depth))
        return out
    if k == "seq":
        parts = [expand(x, atomic, depth) for x in e[1]]
        out = []
        for combo in itertools.product(*parts):
            out.append(tuple(s for part in combo for s in part))
            if len(out) > MAX_ALTS_PER_RULE * 20:
                break
        return out
    if k == "rep":
        inner = expand(e[2], atomic, depth)
        reps = {"*": (0, 1, 2), "+": (1, 2), "?": (0, 1)}[e[1]]
        out = []
        for r in reps:
            for combo in itertools.product(inner, repeat=r):
                out.append(tuple(s for part in combo for s in part))
        return out
    raise ValueError(k)


MINALT = {}


def translate(pest_path):
    rules = P(tokenize(open(pest_path).read())).rules()
    atomic = {n for n, (m, _) in rules.items() if m == "@"}
    atomic |= {"ASCII_ALPHA", "ASCII_ALPHANUMERIC", "ASCII_DIGIT", "ASCII_HEX_DIGIT", "ANY", "WHITESPACE", "COMMENT"}
    gram = {}
    for n, (m, e) in rules.items():
        if n in atomic or n in ("WHITESPACE", "COMMENT"):
            continue
        alts = []
        seen = set()
        for a in expand(e, atomic):
            if a not in seen:
                seen.add(a)
                alts.append(a)
        # prefer short alternatives when a rule explodes
        alts.sort(key=len)
        gram[n] = alts[:MAX_ALTS_PER_RULE]
    # minimal number of tokens every non-terminal derives (fixed point)
    INF = 10 ** 6
    minlen = {n: INF for n in gram}
    MINALT.clear()
    changed = True
    while changed:
        changed = False
        for n, alts in gram.items():
            best, best_k = INF, None
            for k, a in enumerate(alts):
                tot = 0
                for s in a:
                    tot += minlen.get(s[1], INF) if s[0] == "nt" else 1
                if tot < best:
                    best, best_k = tot, k
            if best < minlen[n]:
                # recorded when the length improves: the chosen alternative only mentions rules
                # whose length was already finite, so following MinAltIx always terminates
                minlen[n] = best
                MINALT[n] = best_k + 1
                changed = True
    return gram, minlen, sorted(atomic & set(rules))


def tla_str(s):
    return '"' + s.replace("\\", "\\\\").replace('"', '\\"') + '"'


def emit(gram, minlen, atomic, out_path, pest_path):
    lines = ["------------------------------- MODULE Grammar -------------------------------",
             "(* GENERATED by gen/pest2tla.py from %s -- do not edit.                        *)" % os.path.basename(pest_path),
             "(* Alts(r) is the sequence of alternatives of rule r; an alternative is a sequence *)",
             "(* symbols [t |-> \"lit\" | \"nt\" | \"tok\", v |-> text / rule name].  Repetitions are   *)",
             "(* bounded to two, predicates dropped, atomic rules are terminals (\"tok\").        *)",
             "EXTENDS Sequences, Naturals", "",
             "L(v) == [t |-> \"lit\", v |-> v]", "N(v) == [t |-> \"nt\", v |-> v]", "K(v) == [t |-> \"tok\", v |-> v]", ""]
    names = sorted(gram)
    lines.append("Rules == {" + ", ".join(tla_str(n) for n in names) + "}")
    lines.append("AtomicRules == {" + ", ".join(tla_str(n) for n in atomic) + "}")
    lines.append("")
    for n in names:
        alts = []
        for a in gram[n]:
            syms = ", ".join(("L(%s)" if s[0] == "lit" else "N(%s)" if s[0] == "nt" else "K(%s)") % tla_str(s[1]) for s in a)
            alts.append("<<" + syms + ">>")
        lines.append("Alts_%s == <<%s>>" % (n, ",\n    ".join(alts)))
    lines.append("")
    lines.append("Alts(r) ==")
    for i, n in enumerate(names):
        lines.append("    %s r = %s -> Alts_%s" % ("CASE" if i == 0 else "  []", tla_str(n), n))
    lines.append("")
    lines.append("MinTok(r) ==")
    for i, n in enumerate(names):
        lines.append("    %s r = %s -> %d" % ("CASE" if i == 0 else "  []", tla_str(n), min(minlen[n], 99)))
    lines.append("")
    lines.append("MinAltIx(r) ==       \\* an alternative of r deriving MinTok(r) tokens; following it always terminates")
    for i, n in enumerate(names):
        lines.append("    %s r = %s -> %d" % ("CASE" if i == 0 else "  []", tla_str(n), MINALT.get(n, 1)))
    lines.append("=============================================================================")
    with open(out_path, "w") as f:
        f.write("\n".join(lines) + "\n")


def main(pest_path=None, out_path=None):
    pest_path = pest_path or os.path.join(os.environ.get("TX3_REPO", "/repo"), "crates/tx3-lang/src/tx3.pest")
    out_path = out_path or os.path.join(os.path.dirname(os.path.dirname(os.path.abspath(__file__))), "spec", "Grammar.tla")
    gram, minlen, atomic = translate(pest_path)
    emit(gram, minlen, atomic, out_path, pest_path)
    return gram, minlen, atomic


if __name__ == "__main__":
    g, m, a = main(*sys.argv[1:])
    print("rules", len(g), "alternatives", sum(len(x) for x in g.values()), "atomic", a)
