"""C01, C02, C08, C09, C10: the whole pipeline against the denotation of spec/Lang.tla."""
import copy
import random

from . import core, pp
from .core import I

CFG = """CONSTANTS
  Slots = {{{slots}}}
  Depth = {depth}
  Envs = {{{envs}}}
INIT Init
NEXT Next
INVARIANTS OracleDefined EmitCase
CHECK_DEADLOCK FALSE
"""
ALL_SLOTS = ["out_amount", "second_out", "optional_out", "local_amount", "out_datum", "out_to", "since", "until",
             "mint_amount", "burn_amount", "mint_burn", "mint_redeemer", "input_redeemer", "signer", "meta_value",
             "meta_key", "reference", "min_amount"]


def q(xs):
    return ", ".join('"%s"' % x for x in xs)


def driver_env(env):
    e = core.untlcify(env)
    cfg = e["cfg"]
    return {"args": e["args"], "utxos": e["utxos"], "fee": e["fee"],
            "cfg": {"network": cfg["network"], "slot": cfg["slot"], "ts": cfg["ts"], "cpb": cfg.get("cpb", 4310),
                    "a": 44, "b": 155381, "cost_models": "all"}}


def jobs_for(cases, seed, layouts=(0, 1, 2), with_tir=False):
    jobs = []
    for i, c in enumerate(cases):
        prog = core.untlcify(c["prog"])
        srcs = pp.sources(prog, "t", seed + i)
        srcs = [srcs[k] for k in layouts]
        de = driver_env(c["env"])
        jobs.append({"id": i, "cmd": "pipeline", "sources": srcs, "tx": "t", "args": de["args"], "utxos": de["utxos"],
                     "fee": de["fee"], "cfg": de["cfg"], "with_tir": with_tir})
    return jobs


def slim(ev):
    """what the trace spec needs of a Pipeline event"""
    e = {k: v for k, v in ev.items() if k in ("ev", "layout", "outcome", "stage", "kind", "site", "msg", "payload")}
    if ev.get("outcome") == "ok":
        e["decoded"] = ev["decoded"]
    for k in ("stage", "kind", "site", "msg", "payload"):
        e.setdefault(k, "")
    return e


def run_cases(cases, tag, seed, nproc, layouts=(0, 1, 2)):
    jobs = jobs_for(cases, seed, layouts)
    results = core.run_driver(jobs)
    evs = []
    for j, c in zip(jobs, cases):
        r = results[j["id"]]
        head = [{"ev": "Case", "prog": core.untlcify(c["prog"]), "env": core.untlcify(c["env"])}]
        if "events" not in r:
            evs.append(head + [{"ev": "Pipeline", "layout": 0, "outcome": "panic", "stage": "driver", "site": "abort",
                                "msg": str(r)[:80], "kind": "", "payload": ""}])
        else:
            evs.append(head + [slim(e) for e in r["events"]])
    tr = core.tlc_trace("Trace_Lang", evs, tag, nproc=nproc)
    return jobs, evs, tr


def sig_of(b):
    d = b["detail"]
    w = b["why"]
    if w == "panic":
        return f"panic|{d.get('stage')}|{d.get('site')}|{d.get('msg')}"
    if w == "field":
        return f"field|{d.get('field')}|{d.get('sub')}"
    if w == "rejected":
        return f"rejected|{d.get('stage')}|{d.get('kind')}"
    if w == "accepted":
        return f"accepted|{d.get('why')}"
    if w == "malformed":
        return f"malformed|{d.get('reason')}"
    return w


def collect(rep, tr, cases, jobs, accept, sigx=None):
    for b in tr.bad:
        if not accept(b):
            continue
        c = cases[b["case"]]
        j = jobs[b["case"]]
        sig = sig_of(b)
        if sigx:
            sig = sigx(sig, b, c)
        rep.violation(sig, f"{b['why']} {b['detail']} slot={c.get('slot')} env={c.get('envId')}",
                      {"cmd": "pipeline", "case": {"prog": core.untlcify(c["prog"]), "env": core.untlcify(c["env"]),
                                                   "slot": c.get("slot")},
                       "source": j["sources"][0], "why": b["why"], "detail": b["detail"]})


def gen(rep, slots, depth, envs, tag, workers=6):
    r = core.tlc_mc("MC_Lang", CFG.format(slots=q(slots), depth=depth, envs=", ".join(map(str, envs))), tag,
                    workers=workers, timeout=1800)
    rep.add_tlc(r)
    return r.cases


# ------------------------------------------------------------------------------------- C01
def check_c01(tier, seed):
    rep = core.Report("C01", tier, seed)
    rep.rule = ("a case is a program of the core fragment (fixed declaration schema: parties incl. a mixed-case one, env, policy, "
                "asset, a record and a 3-case variant type, locals) in which ONE expression slot of the transaction is filled "
                "with every expression of its type from the typed universes of MC_Lang (arithmetic incl. a-b-c and both "
                "parenthesisations, negation, concat, property and index access, constructors with and without spread, lists, "
                "maps, AnyAsset, time/slot built-ins, input read as assets and as datum, policy as hash and as address), under "
                "two environments (testnet/fee 170000/large n, mainnet/fee 0/small n), printed in three whitespace/comment "
                "layouts. The decoded payload must equal DenoteTx field by field. non-trivial: the varied expression is "
                "compound; distinct = distinct (program, environment).")
    rep.assumptions = ["TLC 1.8, Json module", "the pretty-printer gen/pp.py (parenthesises right-nested sums, requires whitespace only between word tokens)",
                       "driver projection ledger.rs (independent CBOR reader)", "inputs are supplied directly (selection is C03/C04)",
                       "min_utxo is excluded from exact denotation (C05)"]
    core.build_driver()
    quick = tier == "quick"
    cases = gen(rep, ALL_SLOTS, 1, [1, 2] if quick else [1, 2, 3], "c01_mc", workers=6 if quick else 12)
    rep.exhaustive = True
    rep.extra["programs"] = len(cases)
    jobs, evs, tr = run_cases(cases, "c01", seed, 8 if quick else 12)
    rep.add_trace(tr)
    rep.evaluations = len(cases) * 3
    for c in cases:
        if c["prog"]["tx"] and len(core.canon(c["prog"])) > 0:
            rep.distinct.add(core.digest([c["prog"], c["envId"]]))
    collect(rep, tr, cases, jobs,
            lambda b: b["why"] in ("rejected", "layout", "panic")
            or (b["why"] == "field" and b["detail"].get("field") != "redeemers"))
    outcomes = {}
    for e in evs:
        k = e[1].get("outcome")
        outcomes[k] = outcomes.get(k, 0) + 1
    rep.extra["outcomes_layout0"] = outcomes
    canary(rep, evs, "c01")
    rep.samples = [{"source": jobs[3]["sources"][0]}, {"source_layout1": jobs[3]["sources"][1][:400]},
                   {"slot": cases[3]["slot"], "denotes": cases[3]["expect"]}]
    return rep.finish()


def canary(rep, evs, tag):
    a = None
    for e in evs:
        if len(e) >= 2 and e[1].get("outcome") == "ok" and e[1]["decoded"]["outputs"]:
            a = copy.deepcopy(e)
            break
    if a is None:
        raise core.ToolError("canary: no successful case")
    o = a[1]["decoded"]["outputs"][0]
    o["lovelace"] = I(int(o["lovelace"]["I"]) + 1)
    tr = core.tlc_trace("Trace_Lang", [a], tag + "_canary", nproc=1)
    if not any(x["why"] == "field" for x in tr.bad):
        raise core.ToolError(f"canary not rejected: binding broken ({tr.bad[:3]})")
    rep.extra["canary_rejected"] = True


# ------------------------------------------------------------------------------------- C02
B_SLOTS = ["b_out_amount", "b_mint", "b_burn", "b_since", "b_until", "b_meta_value", "b_meta_key", "b_datum", "b_redeemer",
           "b_index", "b_balanced"]


def check_c02(tier, seed):
    rep = core.Report("C02", tier, seed)
    rep.rule = ("a case is a program in which one numeric ledger field (output lovelace / native asset, mint, burn, validity start, "
                "ttl, metadata label and value, datum and redeemer integers, list index, balanced change) is produced by one "
                "expression shape (parameter, a+b, a-b, negation, asset arithmetic, input - assets - fees) and the parameter takes a "
                "boundary value (0, +-1, +-2^31/2^32, +-(2^63-1), +-2^63, 2^64-1, +-2^64, i128 min/max and neighbours) with the "
                "second operand in {1, -1, 0}. TLC computes the exact value with BigInt: the emitted field must equal it, or the "
                "run must fail when the field cannot hold it (wrap, truncation, clamping and dropping are all mismatches). "
                "non-trivial: the boundary value is outside the 32-bit range; distinct = distinct (program, environment).")
    rep.assumptions = ["TLC 1.8, Json module, BigInt.tla", "dev profile with overflow checks (as the baseline suite); a panic counts as 'not an error'",
                       "integers of the language are 128-bit: results outside i128 are overflow errors"]
    core.build_driver()
    quick = tier == "quick"
    b1 = [100 + i for i in range(1, 19)]
    envs = b1 + [201, 207, 215, 216, 301, 318] + ([] if quick else [200 + i for i in range(2, 19)] + [300 + i for i in (7, 11, 12, 15, 16)])
    cases = gen(rep, B_SLOTS, 1, sorted(set(envs)), "c02_mc", workers=6 if quick else 12)
    rep.exhaustive = True
    rep.extra["programs"] = len(cases)
    exp = {}
    for c in cases:
        exp[c["expect"] + ":" + c.get("why", "")] = exp.get(c["expect"] + ":" + c.get("why", ""), 0) + 1
        if c["envId"] % 100 not in (1, 2, 3, 18):
            rep.distinct.add(core.digest([c["prog"], c["envId"]]))
    rep.extra["expected"] = exp
    jobs, evs, tr = run_cases(cases, "c02", seed, 8 if quick else 12, layouts=(0,))
    rep.add_trace(tr)
    rep.evaluations = len(cases)

    def sigx(sig, b, c):
        # an accepted out-of-range quantity is identified by the field kind (one call site each)
        return sig if b["why"] == "accepted" else f"{sig}|{c['slot']}"

    collect(rep, tr, cases, jobs, lambda b: b["why"] in ("accepted", "field", "rejected", "panic", "balance"), sigx)
    canary(rep, evs, "c02")
    k = len(cases) // 2
    rep.samples = [{"source": jobs[k]["sources"][0][-300:], "n": cases[k]["env"]["args"]["n"], "denotes": cases[k]["expect"], "why": cases[k].get("why")}]
    return rep.finish()


def replay(doc):
    core.build_driver()
    r = doc["replay"]
    c = r["case"]
    jobs, evs, tr = run_cases([{"prog": c["prog"], "env": c["env"]}], "lang_replay", doc.get("seed", 0), 1)
    jobs2 = jobs_for([{"prog": c["prog"], "env": c["env"]}], doc.get("seed", 0), with_tir=True)
    res = core.run_driver(jobs2)[0]
    print(core.json.dumps({"source": jobs[0]["sources"][0], "events": res.get("events", [])[:1], "bad": tr.bad}, indent=1)[:40000])
    return 1 if tr.bad else 0
