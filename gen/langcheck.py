"""C01, C02, C08, C09, C10: the whole pipeline against the denotation of spec/Lang.tla."""
import copy
import random

from . import core, pp
from .core import I

CFG = """CONSTANTS
  Slots = {{{slots}}}
  Depth = {depth}
  Envs = {{{envs}}}
INIT Init
NEXT Next
INVARIANTS OracleDefined EmitCase
CHECK_DEADLOCK FALSE
"""
ALL_SLOTS = ["out_amount", "second_out", "optional_out", "local_amount", "out_datum", "out_to", "since", "until",
             "mint_amount", "burn_amount", "mint_burn", "mint_redeemer", "input_redeemer", "signer", "meta_value",
             "meta_key", "reference", "min_amount", "donation", "witness", "two_witnesses", "publish", "vote_deleg", "two_references"]


def q(xs):
    return ", ".join('"%s"' % x for x in xs)


def driver_env(env):
    e = core.untlcify(env)
    cfg = e["cfg"]
    return {"args": e["args"], "utxos": e["utxos"], "fee": e["fee"],
            "cfg": {"network": cfg["network"], "slot": cfg["slot"], "ts": cfg["ts"], "cpb": cfg.get("cpb", 4310),
                    "a": 44, "b": 155381, "cost_models": "all"}}


def jobs_for(cases, seed, layouts=(0, 1, 2), with_tir=False):
    jobs = []
    for i, c in enumerate(cases):
        prog = core.untlcify(c["prog"])
        srcs = pp.sources(prog, "t", seed + i)
        srcs = [srcs[k] for k in layouts]
        de = driver_env(c["env"])
        jobs.append({"id": i, "cmd": "pipeline", "sources": srcs, "tx": "t", "args": de["args"], "utxos": de["utxos"],
                     "fee": de["fee"], "cfg": de["cfg"], "with_tir": with_tir})
    return jobs


def slim(ev):
    """what the trace spec needs of a Pipeline event"""
    if ev.get("ev") == "Facade":
        return dict(ev, msg=str(ev.get("msg", "")))
    e = {k: v for k, v in ev.items() if k in ("ev", "layout", "outcome", "stage", "kind", "site", "msg", "payload")}
    if ev.get("outcome") == "ok":
        e["decoded"] = ev["decoded"]
    for k in ("stage", "kind", "site", "msg", "payload"):
        e.setdefault(k, "")
    return e


def run_cases(cases, tag, seed, nproc, layouts=(0, 1, 2), facade=False, share=True, via_request=False):
    jobs = jobs_for(cases, seed, layouts)
    for j in jobs:
        j["facade"] = facade
        j["args_via_request"] = via_request
    results = core.run_driver(jobs)
    # the same cases once more on compiler instances shared by all the cases of the process (one per configuration): what
    # an instance compiled before must not show in what it compiles next
    shared = core.run_driver([dict(j, sources=j["sources"][:1], shared_compiler=True, facade=False) for j in jobs]) if share else {}
    evs = []
    for j, c in zip(jobs, cases):
        r = results[j["id"]]
        head = [{"ev": "Case", "prog": core.untlcify(c["prog"]), "env": core.untlcify(c["env"])}]
        if "events" not in r:
            evs.append(head + [{"ev": "Pipeline", "layout": 0, "outcome": "panic", "stage": "driver", "site": "abort",
                                "msg": str(r)[:80], "kind": "", "payload": ""}])
        else:
            e = head + [slim(x) for x in r["events"]]
            s2 = shared.get(j["id"], {})
            if "events" in s2 and r["events"][0].get("outcome") == "ok":
                e.append({"ev": "Repro", "first": r["events"][0].get("payload", ""), "second": s2["events"][0].get("payload", ""),
                          "where": "shared compiler"})
            evs.append(e)
    tr = core.tlc_trace("Trace_Lang", evs, tag, nproc=nproc)
    return jobs, evs, tr


def sig_of(b):
    d = b["detail"]
    w = b["why"]
    if w == "panic":
        return f"panic|{d.get('stage')}|{d.get('site')}|{d.get('msg')}"
    if w == "field":
        return f"field|{d.get('field')}|{d.get('sub')}"
    if w == "rejected":
        return f"rejected|{d.get('stage')}|{d.get('kind')}"
    if w == "accepted":
        return f"accepted|{d.get('why')}"
    if w == "malformed":
        return f"malformed|{d.get('reason')}|{d.get('what')}"
    return w


def collect(rep, tr, cases, jobs, accept, sigx=None):
    for b in tr.bad:
        c = cases[b["case"]]
        b["_case"] = c
        # (a payload that no standard decoder accepts carries no field the template asked for: it concerns every
        # property that reads the compiled transaction, not only C10)
        undecodable = b["why"] == "malformed" and b["detail"].get("reason") == "not-conway"
        if not (accept(b) or undecodable):
            continue
        j = jobs[b["case"]]
        sig = sig_of(b)
        if sigx:
            sig = sigx(sig, b, c)
        rep.violation(sig, f"{b['why']} {b['detail']} slot={c.get('slot')} env={c.get('envId')}",
                      {"cmd": "pipeline", "case": {"prog": core.untlcify(c["prog"]), "env": core.untlcify(c["env"]),
                                                   "slot": c.get("slot")},
                       "source": j["sources"][0], "why": b["why"], "detail": b["detail"]})


BASE = {}


def gen(rep, slots, depth, envs, tag, workers=6):
    r = core.tlc_mc("MC_Lang", CFG.format(slots=q(slots), depth=depth, envs=", ".join(map(str, envs))), tag,
                    workers=workers, timeout=1800)
    rep.add_tlc(r)
    if r.info:
        BASE["tx"] = r.info[0]["base"]
    return r.cases


def pairs_of(cases, n, rng):
    """Programs in which TWO slots are varied together: the fields two single-slot programs (generated by TLC from
    the same base transaction, under the same environment) changed are put into one transaction.  A purely
    syntactic merge; what the merged program denotes is computed by TLC in the trace specification."""
    base = BASE["tx"]
    usable = [c for c in cases if not c["slot"].startswith("b_")]
    by_env = {}
    for c in usable:
        by_env.setdefault(c["envId"], []).append(c)
    out = []
    tries = 0
    while len(out) < n and tries < 20 * n:
        tries += 1
        group = by_env[rng.choice(sorted(by_env))]
        a, b = rng.choice(group), rng.choice(group)
        da = {k for k in base if a["prog"]["tx"][k] != base[k]}
        db = {k for k in base if b["prog"]["tx"][k] != base[k]}
        if a["slot"] == b["slot"] or not da or not db or (da & db):
            continue
        tx = copy.deepcopy(a["prog"]["tx"])
        for k in db:
            tx[k] = copy.deepcopy(b["prog"]["tx"][k])
        out.append({"prog": {"decls": a["prog"]["decls"], "tx": tx}, "env": a["env"], "envId": a["envId"],
                    "slot": a["slot"] + "+" + b["slot"], "expect": "?", "why": ""})
    return out


# ------------------------------------------------------------------------------------- C01
def check_c01(tier, seed):
    rep = core.Report("C01", tier, seed)
    rep.rule = ("a case is a program of the core fragment (fixed declaration schema: parties incl. a mixed-case one, env, policy, "
                "asset, a record and a 3-case variant type, locals) in which ONE expression slot of the transaction is filled "
                "with every expression of its type from the typed universes of MC_Lang (arithmetic incl. a-b-c and both "
                "parenthesisations, negation, concat, property and index access, constructors with and without spread, lists, "
                "maps, AnyAsset, time/slot built-ins, input read as assets and as datum, policy as hash and as address), under "
                "two environments (testnet/fee 170000/large n, mainnet/fee 0/small n), printed in three whitespace/comment "
                "layouts; plus programs in which two slots are varied together (seeded pairs of the above). The decoded payload must "
                "equal DenoteTx field by field. non-trivial: the varied expression is compound; distinct = distinct (program, environment).")
    rep.assumptions = ["TLC 1.8, Json module", "the pretty-printer gen/pp.py (parenthesises right-nested sums, requires whitespace only between word tokens)",
                       "driver projection ledger.rs (independent CBOR reader)", "inputs are supplied directly (selection is C03/C04)",
                       "min_utxo is excluded from exact denotation (C05)"]
    core.build_driver()
    quick = tier == "quick"
    cases = gen(rep, ALL_SLOTS, 1, [1, 2] if quick else [1, 2, 3], "c01_mc", workers=6 if quick else 12)
    # the datum expressions once more under arguments beyond 64 bits on either side (-2^64 - 1, 2^127 - 1): integers
    # that a datum carries as big numbers mean what the template says too
    cases += gen(rep, ["out_datum", "b_datum"], 1, [114, 115], "c01_wide", workers=6)   # (b_datum: a base transaction that uses n nowhere else)
    rep.exhaustive = True
    rng = random.Random(seed)
    pairs = pairs_of(cases, 400 if quick else 30000, rng)
    rep.extra["programs_one_slot"] = len(cases)
    rep.extra["programs_two_slots"] = len(pairs)
    cases = cases + pairs
    rep.extra["programs"] = len(cases)
    jobs, evs, tr = run_cases(cases, "c01", seed, 8 if quick else 12)
    rep.add_trace(tr)
    rep.evaluations = len(cases) * 3
    for c in cases:
        if c["prog"]["tx"] and len(core.canon(c["prog"])) > 0:
            rep.distinct.add(core.digest([c["prog"], c["envId"]]))
    collect(rep, tr, cases, jobs,
            lambda b: b["why"] in ("rejected", "layout", "panic", "repro")
            or (b["why"] == "field" and b["detail"].get("field") != "redeemers")
            # (out-of-range quantities are C02's; a reference literal that no 32-bit output index can hold is a matter of
            # meaning: whatever transaction comes out does not reference what the template says)
            or (b["why"] == "accepted" and "utxo ref" in str(b["detail"].get("why"))))
    outcomes = {}
    for e in evs:
        k = e[1].get("outcome")
        outcomes[k] = outcomes.get(k, 0) + 1
    rep.extra["outcomes_layout0"] = outcomes
    canary(rep, evs, "c01")
    rep.samples = [{"source": jobs[3]["sources"][0]}, {"source_layout1": jobs[3]["sources"][1][:400]},
                   {"slot": cases[3]["slot"], "denotes": cases[3]["expect"]}]
    return rep.finish()


def canary(rep, evs, tag):
    # (a case the denotation leaves open is not judged at all, so several successful cases are corrupted: at least one
    # of them must be rejected, and all of those whose denotation is a transaction)
    cands = []
    for e in evs:
        if len(e) >= 2 and e[1].get("outcome") == "ok" and e[1]["decoded"]["outputs"]:
            a = copy.deepcopy(e)
            o = a[1]["decoded"]["outputs"][0]
            o["lovelace"] = I(int(o["lovelace"]["I"]) + 1)
            cands.append(a)
            if len(cands) >= 12:
                break
    if not cands:
        raise core.ToolError("canary: no successful case")
    tr = core.tlc_trace("Trace_Lang", cands, tag + "_canary", nproc=1)
    rejected = {x["case"] for x in tr.bad if x["why"] == "field"}
    if not rejected:
        raise core.ToolError(f"canary not rejected: binding broken ({tr.bad[:3]})")
    rep.extra["canary_rejected"] = True
    rep.extra["canary_cases_rejected"] = f"{len(rejected)} of {len(cands)}"


# ------------------------------------------------------------------------------------- C02
B_SLOTS = ["b_out_amount", "b_optional_out", "b_mint", "b_burn", "b_mint2", "b_burn2", "b_mint_burn", "b_mint3", "b_donation", "b_publish", "b_since", "b_until", "b_meta_value", "b_meta_key", "b_datum", "b_redeemer",
           "b_index", "b_balanced"]


def check_c02(tier, seed):
    rep = core.Report("C02", tier, seed)
    rep.rule = ("a case is a program in which one numeric ledger field (output lovelace / native asset, mint, burn, validity start, "
                "ttl, metadata label and value, datum and redeemer integers, list index, balanced change) is produced by one "
                "expression shape (parameter, a+b, a-b, negation, asset arithmetic, input - assets - fees) and the parameter takes a "
                "boundary value (0, +-1, +-2^31/2^32, +-(2^63-1), +-2^63, 2^64-1, +-2^64, i128 min/max and neighbours) with the "
                "second operand in {1, -1, 0}. TLC computes the exact value with BigInt: the emitted field must equal it, or the "
                "run must fail when the field cannot hold it (wrap, truncation, clamping and dropping are all mismatches). "
                "non-trivial: the boundary value is outside the 32-bit range; distinct = distinct (program, environment).")
    rep.assumptions = ["TLC 1.8, Json module, BigInt.tla", "dev profile with overflow checks (as the baseline suite); a panic counts as 'not an error'",
                       "integers of the language are 128-bit: results outside i128 are overflow errors"]
    core.build_driver()
    quick = tier == "quick"
    b1 = [100 + i for i in range(1, 19)]
    envs = b1 + [201, 207, 215, 216, 301, 318] + ([] if quick else [200 + i for i in range(2, 19)] + [300 + i for i in (7, 11, 12, 15, 16)])
    cases = gen(rep, B_SLOTS, 1, sorted(set(envs)), "c02_mc", workers=6 if quick else 12)
    rep.exhaustive = True
    rep.extra["programs"] = len(cases)
    exp = {}
    for c in cases:
        exp[c["expect"] + ":" + c.get("why", "")] = exp.get(c["expect"] + ":" + c.get("why", ""), 0) + 1
        if c["envId"] % 100 not in (1, 2, 3, 18):
            rep.distinct.add(core.digest([c["prog"], c["envId"]]))
    rep.extra["expected"] = exp
    jobs, evs, tr = run_cases(cases, "c02", seed, 8 if quick else 12, layouts=(0,))
    rep.add_trace(tr)
    rep.evaluations = len(cases)

    def sigx(sig, b, c):
        # an accepted out-of-range quantity is identified by the field kind (one call site each)
        return sig if b["why"] == "accepted" else f"{sig}|{c['slot']}"

    collect(rep, tr, cases, jobs, lambda b: b["why"] in ("accepted", "field", "rejected", "panic", "balance", "repro"), sigx)
    # once more with the integer arguments arriving as JSON number literals through the service's own coercion (what it
    # refuses is supplied typed): a quantity that crosses the request boundary is still the quantity of the template
    jobs_r, evs_r, tr_r = run_cases(cases, "c02_req", seed, 8 if quick else 12, layouts=(0,), share=False, via_request=True)
    rep.add_trace(tr_r)
    rep.evaluations += len(cases)
    collect(rep, tr_r, cases, jobs_r, lambda b: b["why"] in ("accepted", "field", "rejected", "panic", "balance"),
            # (an accepted out-of-range quantity is the same call site whichever way the argument came in)
            lambda sig, b, c: sigx(sig, b, c) + ("" if b["why"] == "accepted" else "|via-request"))
    canary(rep, evs, "c02")
    k = len(cases) // 2
    rep.samples = [{"source": jobs[k]["sources"][0][-300:], "n": cases[k]["env"]["args"]["n"], "denotes": cases[k]["expect"], "why": cases[k].get("why")}]
    return rep.finish()


# ------------------------------------------------------------------------------------- C08 / C09 / C10
LCFG = """CONSTANTS
  Depth = 1
  Mode = "{mode}"
  NInputs = {ninputs}
  Features = {{{features}}}
  CtorIxs = {{{ixs}}}
  FieldCounts = {{{nfs}}}
  MaxCase = 139
INIT Init
NEXT Next
INVARIANTS OracleDefined EmitCase
CHECK_DEADLOCK FALSE
"""
FEATURES = ["metadata", "input_redeemer", "mint", "mint_redeemer", "burn_same", "burn_other_asset", "burn_all",
            "optional_empty", "optional_full", "reference", "reference_twice", "collateral", "signers", "signers_dup",
            "signers_apart", "datum", "second_input", "validity",
            "donation", "plutus_witness", "plutus_witness_v2", "native_witness", "publish_script", "vote_deleg", "witness_more", "input_many", "collateral_two"]


def gen_ledger(rep, mode, tag, ninputs=2, features=(), ixs=(0,), nfs=(0,), workers=6, simulate=None, seed=None):
    r = core.tlc_mc("MC_Ledger", LCFG.format(mode=mode, ninputs=ninputs, features=q(features), ixs=", ".join(map(str, ixs)),
                                             nfs=", ".join(map(str, nfs))), tag, workers=workers, timeout=2400,
                    heap="10g", simulate=simulate, seed=seed)
    rep.add_tlc(r)
    return r.cases


def check_c08(tier, seed):
    rep = core.Report("C08", tier, seed)
    rep.rule = ("a case is a template with NInputs script inputs (the first optionally multi-UTxO) whose UTxO references are drawn "
                "injectively from 3 transaction ids x 3 output indices (every relative order; source order, name order and ledger "
                "order all differ), redeemers on all or some inputs, 0..3 mint/burn blocks over three policies (hash order differs "
                "from source order; optionally the first as a burn) and 0..2 withdrawals with redeemers; the decoded redeemer map "
                "(tag, index) -> data must equal the one built by sorting items as the ledger does. non-trivial: at least two "
                "redeemers of one tag; distinct = distinct (reference assignment, shape).")
    rep.assumptions = ["TLC 1.8, Json module", "ledger orders: inputs by (txid bytes, index), policies and reward accounts by bytes",
                       "withdrawal sources are stake addresses (the reward account of a base address is not specified here)"]
    core.build_driver()
    quick = tier == "quick"
    cases = gen_ledger(rep, "c08", "c08_mc", ninputs=2, workers=6 if quick else 12)
    rep.exhaustive = True
    rng = random.Random(seed)
    if not quick:
        more = gen_ledger(rep, "c08", "c08_mc3", ninputs=3, workers=12)
        rng.shuffle(more)
        cases += more[:30000]
        rep.exhaustive = False
        rep.notes.append("3-input universe sampled to 30000 cases")
    elif len(cases) > 3000:
        keep = [c for c in cases if "wdReds" in c["meta"]]          # the partially guarded withdrawals are few: never sampled away
        rest = [c for c in cases if "wdReds" not in c["meta"]]
        rng.shuffle(rest)
        cases = keep + rest[:3000 - len(keep)]
        rep.exhaustive = False
        rep.notes.append("2-input universe sampled to 3000 cases in the quick tier (thorough runs all)")
    rep.extra["programs"] = len(cases)
    jobs, evs, tr = run_cases(cases, "c08", seed, 8 if quick else 12, layouts=(0,))
    rep.add_trace(tr)
    rep.evaluations = len(cases)
    for c in cases:
        m = c["meta"]
        if m["reds"] == "all" or m["mints"] >= 2 or m["wds"] >= 2:
            rep.distinct.add(core.digest(m))
    collect(rep, tr, cases, jobs, lambda b: (b["why"] == "field" and b["detail"].get("field") in ("redeemers", "withdrawals", "mint", "inputs"))
            or b["why"] in ("rejected", "panic", "repro"),
            lambda sig, b, c: sig + ("|wds>0" if c["meta"]["wds"] and b["detail"].get("field") == "redeemers" else "")
            + ("|many" if c["meta"]["many"] and b["detail"].get("field") == "redeemers" and not c["meta"]["wds"] else ""))
    canary(rep, evs, "c08")
    rep.samples = [{"meta": cases[0]["meta"], "source": jobs[0]["sources"][0][-700:]}]
    return rep.finish()


C09_INTS = [0, 1, -1, 23, 24, 255, 256, 65535, 65536, 2**32, -2**32, 2**63 - 1, -2**63, 2**63, 2**64 - 1, 2**64, -2**64, -2**64 - 1,
            2**127 - 1, -2**127]
C09_LENS = [0, 1, 23, 24, 63, 64, 65, 100, 128, 129, 192, 193, 256, 300]


def check_c09(tier, seed):
    rep = core.Report("C09", tier, seed)
    rep.rule = ("a case is a variant type with 140 cases in which the constructed case `ix` has `nf` fields of one type (Int, Bytes, "
                "Bool, nested record, List<Int>, Map<Int,Bytes>), placed in an output datum or a mint redeemer; integers take "
                "every boundary value across the i128 range, byte string lengths 0..300 (one to five 64-byte chunks); every field gets a value different from its "
                "neighbours' and the constructor is also written with its fields in the opposite order. The inline datum / redeemer bytes are "
                "parsed by the driver's own Plutus Data reader and must equal Enc(value) with standard framing (tags 121-127, "
                "1280-1400, 102; CBOR int vs bignum). non-trivial: ix >= 7 or a field value outside 64 bits or a nested field; "
                "distinct = distinct (ix, nf, type, position, values).")
    rep.assumptions = ["TLC 1.8, Json module", "the driver's Plutus Data reader (cbor.rs / ledger.rs plutus()) written from the CDDL",
                       "definite vs indefinite list framing is not judged"]
    core.build_driver()
    quick = tier == "quick"
    a = gen_ledger(rep, "c09", "c09_a", ixs=range(0, 140), nfs=(0, 1) if quick else (0, 1, 2), workers=6 if quick else 12)
    b = gen_ledger(rep, "c09", "c09_b", ixs=(0, 6, 7, 127, 128, 139), nfs=range(0, 7), workers=6 if quick else 12)
    rng = random.Random(seed)
    cases = []
    seen = set()
    for c in a + b:
        m = c["meta"]
        if m["rev"] and m["nf"] < 2:
            continue                   # nothing to reverse
        key = (m["ix"], m["nf"], m["ty"], m["where"], m["rev"])
        if key in seen:
            continue
        seen.add(key)
        if quick and m["ix"] not in (0, 6, 7, 127, 128, 139) and m["ty"] not in ("Int", "Rec"):
            continue
        variants = [(7, [9])]
        if m["nf"] >= 1 and m["ty"] in ("Int", "ListInt") and m["ix"] in (0, 1, 7, 130, 139):
            variants += [(n, [9]) for n in C09_INTS]
        if m["nf"] >= 1 and m["ty"] in ("Bytes", "MapIntBytes", "Rec") and m["ix"] in (0, 7, 128):
            variants += [(7, [k % 256 for k in range(ln)]) for ln in C09_LENS]
        for n, bts in variants:
            c2 = copy.deepcopy(c)
            c2["env"]["args"]["n"] = {"k": "number", "num": core.big(n)}
            c2["env"]["args"]["b"] = {"k": "bytes", "v": bts}
            c2["meta"] = dict(m, n=str(n), blen=len(bts))
            cases.append(c2)
            if m["ix"] >= 7 or abs(n) >= 2**64 or m["ty"] in ("Rec", "ListInt", "MapIntBytes"):
                rep.distinct.add(core.digest(c2["meta"]))
    # the datum / redeemer expressions of the core universes too (constructors with and without spread, built from a value of
    # another constructor, out of declaration order, lists, maps, booleans, unit, input data)
    for c in gen(rep, ["out_datum", "mint_redeemer", "input_redeemer"], 1, [1, 2], "c09_core", workers=6):
        c["meta"] = {"ix": 0, "nf": 0, "ty": "core:" + c["slot"], "where": c["slot"], "rev": False, "n": "0", "blen": 0}
        cases.append(c)
        rep.distinct.add(core.digest([c["prog"], c["envId"]]))
    rep.extra["programs"] = len(cases)
    jobs, evs, tr = run_cases(cases, "c09", seed, 8 if quick else 12, layouts=(0,))
    rep.add_trace(tr)
    rep.evaluations = len(cases)

    def sigx(sig, b, c):
        m = c["meta"]
        ixc = "ix<=6" if m["ix"] <= 6 else "ix7..127" if m["ix"] <= 127 else "ix>=128"
        big = "|beyond64" if abs(int(m["n"])) >= 2**64 and m["ty"] in ("Int", "ListInt") and m["nf"] else ""
        return f"{sig}|{ixc}{big}"

    collect(rep, tr, cases, jobs, lambda b: b["why"] in ("field", "framing", "rejected", "panic", "accepted", "repro"), sigx)
    canary(rep, evs, "c09")
    k = len(cases) // 2
    rep.samples = [{"meta": cases[k]["meta"], "source_tail": jobs[k]["sources"][0][-260:]}]
    return rep.finish()


def check_c10(tier, seed):
    rep = core.Report("C10", tier, seed)
    rep.rule = ("a case is one subset of the block-presence lattice (metadata, input / mint redeemers, mint, burns cancelling a mint "
                "per asset / per policy / totally, optional outputs that are empty or not, references incl. the same UTxO twice, "
                "collateral, signers incl. duplicates, datum, second input, validity) x network x cost-model availability; the payload "
                "is decoded by pallas and by the driver's CBOR reader and must be well formed (body hash, aux/script-data hash "
                "presence and value, no empty or duplicate entries, no zero mint, network id), identical over three layouts and "
                "over a second driver process. non-trivial: at least three features present; distinct = distinct (subset, cfg).")
    rep.assumptions = ["TLC 1.8, Json module", "pallas decoder and Blake2b (trusted base for 'a standard decoder accepts' and digests)",
                       "the script-data hash is recomputed independently for Plutus V2/V3 language views only"]
    core.build_driver()
    quick = tier == "quick"
    feats = FEATURES if not quick else ["metadata", "input_redeemer", "mint", "mint_redeemer", "burn_same", "burn_other_asset",
                                        "burn_all", "optional_empty", "reference", "reference_twice", "signers", "signers_dup", "signers_apart", "collateral",
                                        "donation", "plutus_witness", "plutus_witness_v2", "native_witness", "publish_script", "vote_deleg", "witness_more", "input_many", "collateral_two"]
    cases = gen_ledger(rep, "c10", "c10_mc", features=feats, workers=6 if quick else 12)
    rep.exhaustive = True
    rng = random.Random(seed)
    limit = 4096 if quick else 40000
    if len(cases) > limit:
        chain = {"donation", "plutus_witness", "plutus_witness_v2", "native_witness", "publish_script", "vote_deleg", "witness_more",
                 "input_many", "collateral_two"}
        keep = [c for c in cases if chain & set(c["meta"]["fs"])]       # the chain-specific part of the lattice is never sampled away
        rest = [c for c in cases if not chain & set(c["meta"]["fs"])]
        rng.shuffle(rest)
        cases = keep + rest[:max(limit - len(keep), 0)]
        rep.exhaustive = False
        rep.notes.append(f"core lattice sampled to {max(limit - len(keep), 0)} subsets; all {len(keep)} subsets with chain-specific blocks kept")
    # data of every tag family in the datum / a redeemer (constructor alternatives at both ends of the compact, the extended
    # and the general form): whatever the constructor, the payload must remain one a standard decoder accepts
    wide = gen_ledger(rep, "c09", "c10_ctor", ixs=(0, 6, 7, 127, 128, 129, 139), nfs=(0, 1), workers=6)
    for c in wide:
        m = c["meta"]
        if m["ty"] == "Int" and not m["rev"]:
            c["meta"] = {"fs": [f"ctor_{m['ix']}", f"fields_{m['nf']}", m["where"]]}
            cases.append(c)
    # configurations: network x cost models
    full = []
    for i, c in enumerate(cases):
        c2 = copy.deepcopy(c)
        net = i % 2
        c2["env"]["cfg"]["network"] = net
        c2["cm"] = ["all", "all", "v1", "none"][i % 4] if not quick else ["all", "all", "all", "none"][i % 4]
        full.append(c2)
        if len(c["meta"]["fs"]) >= 3:
            rep.distinct.add(core.digest([c["meta"], net, c2["cm"]]))
    rep.extra["programs"] = len(full)
    jobs = jobs_for(full, seed)
    for j, c in zip(jobs, full):
        j["cfg"]["cost_models"] = c["cm"]
    r1 = core.run_driver(jobs)
    r2 = core.run_driver(jobs)         # a second process
    # a third run on a compiler instance that has compiled other transactions before: the twin of the case with the
    # other Plutus language (same redeemers, other language view) where the lattice has it, and two more programs
    by_fs = {frozenset(c["meta"]["fs"]): k for k, c in enumerate(full)}
    jobs3 = []
    for k, (j, c) in enumerate(zip(jobs, full)):
        fs = set(c["meta"]["fs"])
        twin = None
        if "plutus_witness" in fs or "plutus_witness_v2" in fs:
            other = set(fs)
            if "plutus_witness" in fs:
                other.discard("plutus_witness")
                other.add("plutus_witness_v2")
            else:
                other.discard("plutus_witness_v2")
                other.add("plutus_witness")
            twin = by_fs.get(frozenset(other))
        hist = [jobs[(k * 7 + 3) % len(jobs)]["sources"][0], jobs[(k * 13 + 5) % len(jobs)]["sources"][0]]
        if twin is not None:
            hist.append(jobs[twin]["sources"][0])
        jobs3.append(dict(j, sources=j["sources"][:1], history=hist))
    r3 = core.run_driver(jobs3)
    evs = []
    for j, c in zip(jobs, full):
        head = [{"ev": "Case", "prog": core.untlcify(c["prog"]), "env": core.untlcify(c["env"])}]
        a, b = r1[j["id"]], r2[j["id"]]
        if "events" not in a:
            evs.append(head + [{"ev": "Pipeline", "layout": 0, "outcome": "panic", "stage": "driver", "site": "abort",
                                "msg": str(a)[:80], "kind": "", "payload": ""}])
            continue
        body = [slim(e) for e in a["events"]]
        pa = a["events"][0].get("payload", "")
        if "events" not in b:      # the second run of the case hung or aborted twice although the first did not
            raise core.ToolError(f"second process gave no result for case {j['id']}: {str(b)[:120]}")
        pb = b["events"][0].get("payload", "")
        extra = []
        c3 = r3[j["id"]]
        if "events" in c3:
            e3 = slim(c3["events"][0])
            e3["layout"] = 9            # judged like another layout: well-formed, and the same bytes
            extra = [e3, {"ev": "Repro", "first": pa, "second": c3["events"][0].get("payload", ""), "where": "after other transactions"}]
        evs.append(head + body + [{"ev": "Repro", "first": pa, "second": pb, "where": "second process"}] + extra)
    tr = core.tlc_trace("Trace_Lang", evs, "c10", nproc=8 if quick else 12)
    rep.add_trace(tr)
    rep.evaluations = len(full) * 7
    # without the cost model of the language in use, failing is the right answer when redeemers are present
    collect(rep, tr, full, jobs, lambda b: b["why"] in ("malformed", "repro", "layout", "panic")
            or (b["why"] == "rejected" and b["_case"]["cm"] == "all"),
            lambda sig, b, c: sig + (f"|cost_models={c['cm']}" if b["why"] in ("panic", "rejected") else ""))
    # payloads returned by resolve_tx (inputs selected by the resolver, several blocks, pinned and open): the body fields
    # that are sets hold no duplicates there either
    from . import selector
    g = core.tlc_mc("MC_Selector", selector.CFG.format(maxu=2, maxl=2, maxt1=1, maxt2=0, nblocks=2, wmax=50, explore="FALSE",
                                                       fallback="FALSE", overlap="TRUE", emit="EmitCase"),
                    "c10_sel", workers=6, timeout=1200, heap="8g")
    rep.add_tlc(g)
    scases = []
    for c in g.cases:
        store, qs = selector.realise(c, ["zeta", "alpha", "mid"])
        if selector.usable(qs):
            scases.append((store, qs))
    rng.shuffle(scases)
    scases = scases[:6000 if quick else 60000]
    str_, sevs = selector.run_cases(scases, "c10_sel", 0, True, 6)
    rep.add_trace(str_)
    rep.extra["resolve_tx_payloads"] = len(scases)
    for b in str_.bad:
        if b["why"] in ("dup-inputs", "inputs-mismatch", "inputs-count", "collateral-mismatch") or (b["why"] == "panic"):
            store, qs = scases[b["case"]]
            rep.violation(f"malformed|resolve_tx|{b['why']}", f"{b['why']} {b['detail']}",
                          {"cmd": "select", "store": store, "queries": qs, "why": b["why"], "detail": b["detail"]})
    canary(rep, evs, "c10")
    rep.samples = [{"features": full[5]["meta"]["fs"], "cost_models": full[5]["cm"], "source_tail": jobs[5]["sources"][0][-500:]}]
    return rep.finish()


def replay(doc):
    core.build_driver()
    r = doc["replay"]
    c = r["case"]
    jobs, evs, tr = run_cases([{"prog": c["prog"], "env": c["env"]}], "lang_replay", doc.get("seed", 0), 1)
    jobs2 = jobs_for([{"prog": c["prog"], "env": c["env"]}], doc.get("seed", 0), with_tir=True)
    res = core.run_driver(jobs2)[0]
    print(core.json.dumps({"source": jobs[0]["sources"][0], "events": res.get("events", [])[:1], "bad": tr.bad}, indent=1)[:40000])
    return 1 if tr.bad else 0
