from .staging import check_c06 as check, replay  # noqa
