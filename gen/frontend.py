"""C12 (the front end is total), C13 (accepted programs can be lowered) and C19 (diagnostics
point inside the text they carry)."""
import copy
import glob
import os
import random

from . import core, pest2tla, pp

GCFG = """CONSTANTS
  Root = "{root}"
  MaxTokens = {n}
INIT Init
NEXT Next
INVARIANTS EmitCase
CHECK_DEADLOCK FALSE
"""

LEX = {
    "identifier": ["a", "P", "R", "f", "Ada", "fees", "source", "x1", "Int", "min_utxo", "tip_slot", "t", "K", "input", "café", "Émile", "a\u0301"],
    "number": ["7", "0", "-1", "\u0663", "\u22121", "18446744073709551616", "99999999999999999999", "-9223372036854775809",
               "340282366920938463463374607431768211456",
               # the last numeral of every width and the first one beyond it (a 64-bit overflow need not have 20 digits)
               "9223372036854775807", "9223372036854775808", "9999999999999999999", "-9223372036854775808", "18446744073709551615",
               "4294967295", "4294967296", "2147483648", "-2147483649", "00000000000000000000007", "-0"],
    "string": ['"s"', '""', '"hé€"', "\u201cs\u201d", '"' + "x" * 70 + '"',
               # longer than the 64 bytes a metadata text may have, with a character sitting across byte 64 / starting at it
               '"' + "x" * 63 + "é€ and more" + '"', '"' + "x" * 62 + "€€" + '"', '"' + "\u4e2d" * 30 + '"', '"' + "x" * 64 + "é" + '"'],
    "bool": ["true", "false"],
    "hex_string": ["0x00", "0xabc", "0x" + "ab" * 40, "0xAB", "0x" + "11" * 28],
    "wildcard": ["*"],
    "utxo_ref": ["0x" + "07" * 32 + "#1", "0xab#0", "0xabc#0", "0xab#99999999999999999999",
                 "0x" + "07" * 32 + "#4294967295", "0x" + "07" * 32 + "#4294967296", "0x" + "07" * 32 + "#18446744073709551615",
                 "0x" + "07" * 32 + "#18446744073709551616", "0x" + "07" * 32 + "#9223372036854775808", "0x#0", "0x" + "07" * 33 + "#0"],
}
SAME_NAMES = ["Z", "R", "a", "P"]      # Z: the alias being defined in the alias scaffold; R, P: a type / party of the prelude
DEFINING = {"program", "type_def", "type", "env_def", "asset_def", "policy_def", "parameter_list", "locals_block", "tx_def"}
PRELUDE = ["type", "N", "=", "Int", ";", "party", "P", ";", "type", "R", "{", "f", ":", "Int", ",", "}", "type", "V", "{", "K", "{", "f", ":", "Int", ",", "}", ",", "J", ",", "}"]

# root rule -> (tokens before, tokens after) embedding the derived sentence in a whole program
EXPR_SLOTS = [
    (["tx", "t", "(", "a", ":", "Int", ")", "{", "input", "source", "{", "from", ":", "P", ",", "datum_is", ":", "R", ",", "}",
      "output", "{", "to", ":", "P", ",", "amount", ":"], [",", "}", "}"]),
    (["tx", "t", "(", "a", ":", "Int", ")", "{", "output", "{", "to", ":", "P", ",", "amount", ":", "Ada", "(", "1", ")", ",", "datum", ":"],
     [",", "}", "}"]),
    (["tx", "t", "(", "a", ":", "Int", ")", "{", "validity", "{", "since_slot", ":"], [",", "}", "}"]),
    (["tx", "t", "(", "a", ":", "Int", ")", "{", "metadata", "{", "1", ":"], [",", "}", "}"]),
    (["tx", "t", "(", "a", ":", "Int", ")", "{", "output", "{", "to", ":"], [",", "amount", ":", "Ada", "(", "1", ")", ",", "}", "}"]),
    (["tx", "t", "(", "a", ":", "Int", ")", "{", "signers", "{"], [",", "}", "}"]),
    (["tx", "t", "(", "a", ":", "Int", ")", "{", "mint", "{", "amount", ":"], [",", "}", "}"]),
]
BLOCK = (["tx", "t", "(", "a", ":", "Int", ")", "{"], ["}"])
TOP = ([], ["tx", "t", "(", ")", "{", "}"])
ROOTS_QUICK = [("program", 9, None), ("data_expr", 4, "expr"), ("tx_def", 9, "top0"), ("input_block", 8, "block"),
               ("output_block", 8, "block"), ("type_def", 8, "top"), ("policy_def", 7, "top"), ("cardano_block", 9, "block"),
               ("struct_constructor", 7, "expr"), ("chain_specific_block", 6, "block"), ("asset_def", 7, "top"),
               ("env_def", 7, "top"), ("collateral_block", 8, "block"), ("reference_block", 8, "block"),
               ("locals_block", 7, "block"), ("metadata_block", 7, "block"), ("signers_block", 6, "block"),
               ("validity_block", 8, "block"), ("mint_block", 8, "block"), ("type", 5, "alias"), ("parameter_list", 8, "params"),
               ("list_constructor", 6, "expr"), ("map_constructor", 7, "expr"), ("fn_call", 6, "expr"),
               ("any_asset_constructor", 9, "expr")]
ROOTS_THOROUGH = [("program", 11, None), ("data_expr", 5, "expr"), ("tx_def", 11, "top0"), ("input_block", 10, "block"),
                  ("output_block", 10, "block"), ("type_def", 10, "top"), ("policy_def", 9, "top"), ("cardano_block", 11, "block"),
                  ("struct_constructor", 9, "expr"), ("chain_specific_block", 7, "block"), ("asset_def", 8, "top"),
                  ("env_def", 9, "top"), ("collateral_block", 10, "block"), ("reference_block", 9, "block"),
                  ("locals_block", 9, "block"), ("metadata_block", 9, "block"), ("signers_block", 8, "block"),
                  ("validity_block", 10, "block"), ("mint_block", 10, "block"), ("burn_block", 9, "block"), ("type", 6, "alias"),
                  ("parameter_list", 10, "params"), ("list_constructor", 7, "expr"), ("map_constructor", 9, "expr"),
                  ("fn_call", 8, "expr"), ("any_asset_constructor", 10, "expr"), ("concat_constructor", 8, "expr")]


def scaffolds(kind):
    if kind is None:
        return [([], [])]
    if kind == "expr":
        return [(PRELUDE + a, b) for a, b in EXPR_SLOTS]
    if kind == "block":
        return [(PRELUDE + BLOCK[0], BLOCK[1])]
    if kind == "top":
        return [(PRELUDE, TOP[1])]
    if kind == "top0":
        return [(PRELUDE, [])]
    if kind == "alias":
        return [(PRELUDE + ["type", "Z", "="], [";"] + TOP[1])]
    if kind == "params":
        return [(PRELUDE + ["tx", "t"], ["{", "}"])]
    raise core.ToolError(kind)


def realise(sent, rng, hostile_at=None, hostile_lex=None, same=None):
    """grammar sentence (symbols) -> concrete tokens; with `same` every identifier is that one
    name, which makes definitions refer to themselves, repeat and shadow each other"""
    out = []
    for i, s in enumerate(sent):
        if s["t"] == "lit":
            out.append(s["v"])
        else:
            pool = LEX.get(s["v"], ["a"])
            if hostile_at == i:
                out.append(hostile_lex)
            elif s["v"] == "identifier" and same is not None:
                out.append(same)
            elif s["v"] == "identifier":
                out.append(rng.choice(pool[:8]))
            else:
                out.append(pool[0])
    return out


def text_of(tokens, mode, seed):
    return pp.layout(tokens, mode, seed)


STRAYS = ["é", "\u2026", "\u2212", "\u201c", "€", "\u00a0", "\u2028", "\U0001F600", "ß"]   # 2-, 3- and 4-byte characters


def mutate_tokens(toks, rng):
    toks = list(toks)
    k = rng.random()
    if not toks:
        return toks
    i = rng.randrange(len(toks))
    if k < 0.12:
        toks.insert(i, rng.choice(STRAYS))      # the error position lands on a multi-byte character
    elif k < 0.25:
        del toks[i]
    elif k < 0.45:
        toks.insert(i, toks[i])
    elif k < 0.65:
        j = rng.randrange(len(toks))
        toks[i], toks[j] = toks[j], toks[i]
    elif k < 0.8:
        j = rng.randrange(len(toks))
        toks[i:i] = toks[j:j + rng.randint(1, 6)]
    else:
        t = toks[i]
        if t.isdigit():
            toks[i] = t * rng.choice([2, 5, 12])
        elif t.startswith("0x"):
            toks[i] = t + rng.choice(["a", "abc", "f" * 33])
        elif t.startswith('"'):
            toks[i] = t[:-1] + "é" * rng.choice([1, 40]) + '"'
        else:
            toks[i] = t + rng.choice(["_", "9", "x" * 30])
    return toks


def tokens_of_source(src):
    """a rough tokenizer of tx3 text for the mutation driver (strings, hex, words, punctuation)"""
    import re
    return re.findall(r'"[^"]*"|0x[0-9a-fA-F]+#\d+|0x[0-9a-fA-F]+|//[^\n]*|/\*.*?\*/|::|\.\.\.|[A-Za-z_][A-Za-z0-9_]*|-?\d+|\S', src, re.S)


def nesting_bombs():
    """expressions that are deep or long in one direction (parentheses, list literals, negations, left-nested sums and
    differences, concatenations, property and index chains, nested calls), each in every place of a program where an
    expression can stand -- the analyzer does different work on an expression depending on where it stands (typed
    positions, property operands, definitions)"""
    def shapes(d):
        return {
            "parens": "(" * d + "1" + ")" * d,
            "lists": "[" * d + "1" + "]" * d,
            "negations": "!" * d + "1",
            "sum": "+".join(["1"] * d),
            "difference": "-".join(["n"] + ["1"] * d),
            "mixed_sum": "+".join((["n", "1"] * d)[:d]),
            "concat": "concat(" * min(d, 24) + '"a"' + ', "b")' * min(d, 24),
            "property_chain": "n" + ".a" * d,
            "index_chain": "n" + "[0]" * d,
            "calls": "Ada(" * d + "1" + ")" * d,
            "sum_then_property": "(" + "+".join(["n"] * d) + ").a",
        }
    slots = {
        "output_amount": "tx t(n: Int) { output { to: P, amount: %s, } }",
        "output_datum": "tx t(n: Int) { output { to: P, amount: Ada(1), datum: %s, } }",
        "input_min": "tx t(n: Int) { input i { from: P, min_amount: %s, } }",
        "local": "tx t(n: Int) { locals { l: %s, } output { to: P, amount: l, } }",
        "since_slot": "tx t(n: Int) { validity { since_slot: %s, } }",
        "metadata_key": "tx t(n: Int) { metadata { %s: 1, } }",
        "metadata_value": "tx t(n: Int) { metadata { 1: %s, } }",
        "mint": "tx t(n: Int) { mint { amount: %s, redeemer: %s, } }",
        "signer": "tx t(n: Int) { signers { %s, } }",
        "donation_coin": "tx t(n: Int) { cardano::treasury_donation { coin: %s, } }",
        "withdrawal_amount": "tx t(n: Int) { cardano::withdrawal { from: P, amount: %s, redeemer: (), } }",
        "witness_version": "tx t(n: Int) { cardano::plutus_witness { version: %s, script: 0xabcd, } }",
        "asset_policy": "asset X = %s.\"a\"; tx t(n: Int) { output { to: P, amount: X(1), } }",
        "asset_name": "asset X = 0xabcd.%s; tx t(n: Int) { output { to: P, amount: X(1), } }",
        "policy_hash": "policy Q { hash: %s, } tx t(n: Int) { output { to: Q, amount: Ada(1), } }",
        "struct_field": "tx t(n: Int) { output { to: P, amount: Ada(1), datum: R { f: %s, }, } }",
        "list_item": "tx t(n: Int) { output { to: P, amount: Ada(1), datum: [%s, 1], } }",
        "index": "tx t(n: Int) { output { to: P, amount: Ada(1), datum: [1, 2][%s], } }",
    }
    out = []
    head = "party P; type R { f: Int, } "
    for depth in (8, 32, 64):
        for sname, shape in shapes(depth).items():
            for slot, tpl in slots.items():
                out.append(head + tpl.replace("%s", shape))
        out.append(head + "type A = " + "List<" * depth + "Int" + ">" * depth + "; tx t() {}")
        out.append(head + "tx t() { locals { " + " ".join("l%d: l%d," % (i + 1, i) for i in range(depth)) + " } }")
    return out


def reference_bombs():
    """definitions that mention themselves, each other, or a name defined later, k times: the analyzer
    resolves names in repeated passes, and a pass must not multiply the work of the previous one"""
    out = []
    # (on the pinned tree a local or an input that mentions itself five or more times exhausts memory
    # within seconds -- a recorded finding; the sizes in between only make the run slow)
    for k in (2, 3, 5, 8):
        refs = "+".join(["a"] * k)
        out.append(("self-reference:local", "tx t() { locals { a: %s, } }" % refs))
        if k != 3:
            out.append(("self-reference:local-pair", "tx t() { locals { a: %s, b: %s, } }" % ("+".join(["b"] * k), refs)))
        if k >= 5:
            out.append(("self-reference:local-property", "tx t() { locals { a: %s, } }" % "+".join(["().a.a"] * k)))
        if k != 5:
            out.append(("self-reference:input", "party P; tx t() { input a { from: P, min_amount: %s, } }" % refs))
        fields = " ".join("f%d: T," % i for i in range(k))
        out.append(("self-reference:type", "type T { %s } tx t() {}" % fields))
        out.append(("self-reference:type+alias", "type T { %s } type A = Int; tx t() {}" % fields))
        out.append(("self-reference:alias", "type A = Map<%s>; tx t() {}" % ",".join(["A"] * 2)))
        out.append(("self-reference:alias-list", "type A = List<A>; type B = %s; tx t() {}" % "Map<A,A>"))
        out.append(("self-reference:type-pair", "type T { %s } type U { %s } type A = Bytes; tx t() {}"
                    % (" ".join("f%d: U," % i for i in range(k)), fields)))
        # alias cycles of length k-ish, reached directly and through aliases that lead into them, named by a constructor,
        # a parameter type, a datum_is and a record field
        cyc = min(k, 3)
        names = ["A%d" % i for i in range(cyc)]
        cycle = " ".join("type %s = %s;" % (names[i], names[(i + 1) % cyc]) for i in range(cyc))
        lead = "type C = A0; type D = C;"
        for via in ("A0", "C", "D"):
            out.append(("alias-cycle:constructor", "%s %s party P; tx t() { output { to: P, amount: Ada(1), datum: %s { x: 1, }, } }" % (cycle, lead, via)))
            out.append(("alias-cycle:param", "%s %s tx t(p: %s) {}" % (cycle, lead, via)))
            out.append(("alias-cycle:datum_is", "%s %s party P; tx t() { input i { from: P, datum_is: %s, } }" % (cycle, lead, via)))
            out.append(("alias-cycle:field", "%s %s type R { f: %s, } tx t(r: R) { locals { z: r.f, } }" % (cycle, lead, via)))
        # a chain of aliases ending in a type that mentions itself k times: every pass resolves one more alias
        chain = " ".join("type B%d = %s;" % (i, "B%d" % (i - 1) if i else "T") for i in range(4 * k))
        out.append(("alias-chain:self-type", "type T { %s } %s tx t(p: B%d) {}" % (fields, chain, 4 * k - 1)))
        out.append(("self-reference:output", "party P; tx t() { input a { from: P, min_amount: Ada(1), } output b { to: P, amount: %s, } }"
                    % "+".join(["b"] * k)))
    # flat programs with many definitions that depend on earlier ones (no definition mentions itself): a Fibonacci-like
    # chain f_i = f_(i-1) + f_(i-2), a doubling chain in both orders, the same over inputs and outputs -- the work of the
    # resolution passes must not grow with the depth of such a chain
    for n in (12, 24, 40):
        fib = " ".join("f%d: f%d + f%d," % (i, i - 1, i - 2) for i in range(2, n))
        out.append(("dependency-chain:fibonacci", "tx t(f0: Int, f1: Int) { locals { %s } }" % fib))
        dbl = " ".join("a%d: a%d + a%d," % (i, i + 1, i + 1) for i in range(n))
        out.append(("dependency-chain:doubling", "tx t(a%d: Int) { locals { %s } }" % (n, dbl)))
        dbl_rev = " ".join("a%d: a%d + a%d," % (i, i - 1, i - 1) for i in range(n, 0, -1))
        out.append(("dependency-chain:doubling-rev", "tx t(a0: Int) { locals { %s } }" % dbl_rev))
        ins = " ".join("input i%d { from: P, min_amount: i%d + i%d, }" % (i, i - 1, i - 1) for i in range(1, min(n, 24)))
        out.append(("dependency-chain:inputs", "party P; tx t() { input i0 { from: P, min_amount: Ada(1), } %s }" % ins))
        outs = " ".join("output o%d { to: P, amount: Ada(f%d), }" % (i, i) for i in range(n))
        out.append(("dependency-chain:fibonacci+outputs", "party P; tx t(f0: Int, f1: Int) { locals { %s } %s }" % (fib, outs)))
    return out


def sig_of(b):
    import re
    d = b["detail"]
    if b["why"] == "panic" and d.get("site") == "process" and str(b.get("_origin", "")).startswith(("self-reference:", "alias-cycle:", "alias-chain:")):
        # the process ran out of time or memory; which of the two depends on the machine
        return f"panic|analyze|unbounded|{b['_origin']}"
    if b["why"] == "panic":
        msg = re.sub(r"\d+", "N", str(d.get("msg")))       # positions inside messages are not part of the site
        return f"panic|{d.get('stage')}|{d.get('outcome')}|{d.get('site')}|{msg}"
    if b["why"] in ("parse-span", "analyze-span"):
        return f"{b['why']}|" + "|".join(f"{k}={d[k]}" for k in sorted(d))
    if b["why"] in ("lower-contract", "workspace-contract"):
        return f"{b['why']}|{d.get('kind')}"
    return b["why"]


GRAMMAR = {}


def regenerate_grammar():
    g, minlen, _ = pest2tla.main()
    GRAMMAR["g"], GRAMMAR["minlen"] = g, minlen
    return g, minlen


def alt_minlen(alt, minlen):
    return sum(minlen.get(s[1], 99) if s[0] == "nt" else 1 for s in alt)


def reachable(g, roots):
    seen, todo = set(), list(roots)
    while todo:
        r = todo.pop()
        if r in seen or r not in g:
            continue
        seen.add(r)
        for a in g[r]:
            todo.extend(s[1] for s in a if s[0] == "nt")
    return seen


CCFG = """CONSTANTS
  Root = "{root}"
  Budget = {n}
INIT Init
NEXT Next
INVARIANTS EmitCase
CHECK_DEADLOCK FALSE
"""


def enumerate_sentences(rep, roots, tag, workers, deep_below=20):
    """(a) MC_Grammar: every sentence of at most N tokens per root; (b) MC_GrammarCover: from each root,
    every derivation that deviates from the shortest expansions at most `budget` times, whatever
    its length (so a long or newly added alternative of a rule is derived as well).  The
    alternatives each sentence used are collected: the evidence states which <<rule, alternative>>
    pairs of the grammar reachable from the roots were covered."""
    g, minlen = GRAMMAR.get("g"), GRAMMAR.get("minlen")
    if g is None:
        g, minlen = regenerate_grammar()
    out = []
    covered = set()
    seen = set()
    n_cover = 0
    for root, n, kind in roots:
        r = core.tlc_mc("MC_Grammar", GCFG.format(root=root, n=n), f"{tag}_{root}", workers=workers, timeout=1500, heap="10g")
        rep.add_tlc(r)
        for c in r.cases:
            out.append((root, kind, c["toks"]))
            seen.add((root, core.canon(c["toks"])))
            covered.update((u[0], u[1]) for u in c["used"])
        # cover mode: one deviation always; two where that stays small (a rule holding several
        # data_expr children multiplies by the ~400 alternatives of data_expr at each deviation)
        r = core.tlc_mc("MC_GrammarCover", CCFG.format(root=root, n=1), f"{tag}_cov_{root}", workers=workers, timeout=1500, heap="10g")
        rep.add_tlc(r)
        if len(r.cases) < deep_below:
            r = core.tlc_mc("MC_GrammarCover", CCFG.format(root=root, n=2), f"{tag}_cov_{root}", workers=workers, timeout=1500, heap="10g")
            rep.add_tlc(r)
        for c in r.cases:
            key = (root, core.canon(c["toks"]))
            covered.update((u[0], u[1]) for u in c["used"])
            if key not in seen:
                seen.add(key)
                out.append((root, "cover", c["toks"]))
                n_cover += 1
    reach = reachable(g, [r for r, _, _ in roots])
    allpairs = {(r, k + 1) for r in reach for k in range(len(g[r]))}
    missing = sorted(allpairs - covered)
    rep.extra["grammar_alternatives"] = {"reachable": len(allpairs), "covered": len(allpairs & covered),
                                         "uncovered": [f"{r}#{k}" for r, k in missing][:80],
                                         "sentences_from_cover_mode": n_cover,
                                         "cover_mode": f"1 deviation from the shortest expansion per root, 2 where 1 gives fewer than {deep_below} sentences"}
    return out


def build_sources(rep, tier, seed, multiline):
    quick = tier == "quick"
    rng = random.Random(seed)
    sents = enumerate_sentences(rep, ROOTS_QUICK if quick else ROOTS_THOROUGH, rep.pid.lower() + "_g", 6 if quick else 12,
                                deep_below=20 if quick else 500)
    rep.extra["grammar_sentences"] = len(sents)
    sources = []
    for root, kind, sent in sents:
        if kind == "cover":     # a sentence of the alternative-coverage enumeration: one realisation, one scaffold
            k0 = dict((r, k) for r, _, k in ROOTS_THOROUGH)[root]
            pre, post = scaffolds(k0)[0]
            sources.append(("cover:" + root, text_of(pre + realise(sent, rng) + post, 0, 0)))
            continue
        for pre, post in scaffolds(kind):
            toks = pre + realise(sent, rng) + post
            mode = rng.choice([0, 0, 2, 1]) if multiline else 0
            sources.append(("grammar:" + root, text_of(toks, mode, rng.randrange(1 << 30))))
        # a stray multi-byte character at one token position: the diagnostic lands on it
        if rng.random() < (0.15 if quick else 1.0):
            pre, post = scaffolds(kind)[0]
            toks = realise(sent, rng)
            toks.insert(rng.randrange(len(toks) + 1), rng.choice(STRAYS))
            sources.append(("stray:" + root, text_of(pre + toks + post, rng.choice([0, 2]), rng.randrange(1 << 30))))
        # one name for every identifier: self-reference, redefinition, shadowing
        if sum(1 for x in sent if x["t"] == "tok" and x["v"] == "identifier") >= 2:
            pre, post = scaffolds(kind)[0]
            for name in (SAME_NAMES if root in DEFINING else SAME_NAMES[:1]):
                toks = pre + realise(sent, rng, same=name) + post
                sources.append(("same-name:" + root, text_of(toks, 0, 0)))
        # hostile lexemes, one terminal at a time (sampled)
        tpos = [i for i, s in enumerate(sent) if s["t"] == "tok" and len(LEX.get(s["v"], [])) > 1]
        for i in tpos[:3]:
            for lex in LEX[sent[i]["v"]][1:]:
                if rng.random() < (0.25 if quick else 0.6):
                    pre, post = scaffolds(kind)[0]
                    toks = pre + realise(sent, rng, i, lex) + post
                    sources.append(("hostile:" + sent[i]["v"], text_of(toks, rng.choice([0, 2]), rng.randrange(1 << 30))))
    # token-level mutations of the example corpus
    n_mut = 3000 if quick else 40000
    corpus = []
    for f in sorted(glob.glob(os.path.join(core.REPO, "examples", "*.tx3"))):
        corpus.append(open(f).read())
    for k in range(n_mut):
        src = rng.choice(corpus)
        toks = tokens_of_source(src)
        for _ in range(rng.randint(1, 3)):
            toks = mutate_tokens(toks, rng)
        sources.append(("mutation", text_of(toks, rng.choice([0, 2]), rng.randrange(1 << 30))))
    for c in corpus:
        sources.append(("example", c))
    for b in nesting_bombs():
        sources.append(("nesting", b))
    sources.extend(reference_bombs())
    rep.extra["sources"] = len(sources)
    return sources


def run_sources(sources, tag, lower, nproc, batch=50):
    jobs = []
    for i in range(0, len(sources), batch):
        jobs.append({"id": len(jobs), "cmd": "frontend", "sources": [s for _, s in sources[i:i + batch]], "lower": lower})
    results = core.run_driver(jobs, case_timeout=30)
    evs = []
    index = []          # per trace case: list of source indices
    for j in jobs:
        r = results[j["id"]]
        base = j["id"] * batch
        if "events" not in r:
            # the batch died: run its sources one by one to attribute the abort
            single = [{"id": k, "cmd": "frontend", "sources": [s], "lower": lower} for k, s in enumerate(j["sources"])]
            rr = core.run_driver(single, case_timeout=10)
            for k, s in enumerate(j["sources"]):
                one = rr[k]
                if "events" in one:
                    evs.append(one["events"])
                else:
                    kind = "timeout" if one.get("timeout") else "abort"
                    evs.append([{"ev": "Source", "len": len(s)}, {"ev": "Parsed", "outcome": kind, "site": "process", "msg": kind}])
                index.append([base + k])
            continue
        evs.append(r["events"])
        index.append(list(range(base, base + len(j["sources"]))))
    # normalise optional fields so that every event of a kind has the same shape
    for e in evs:
        for x in e:
            if x["ev"] == "Parsed":
                for k, v in (("site", ""), ("msg", ""), ("src_len", 0), ("input_len", 0), ("start", 0), ("end", 0), ("dummy", True),
                             ("start_on_boundary", True), ("end_on_boundary", True), ("rendered", "ok")):
                    x.setdefault(k, v)
            if x["ev"] == "Analyzed":
                x.setdefault("site", "")
                x.setdefault("msg", "")
    tr = core.tlc_trace("Trace_Frontend", evs, tag, nproc=nproc)
    return tr, evs, index


def locate(evs_case, event):
    """index (within the batch) of the source the event number `event` of the case belongs to"""
    return max(sum(1 for x in evs_case[:event + 1] if x["ev"] == "Source") - 1, 0)


def check_c12(tier, seed):
    rep = core.Report("C12", tier, seed)
    rep.rule = ("inputs are (a) every sentence of <= N tokens derivable from the grammar generated from tx3.pest (Grammar.tla), from "
                "`program` and rooted at every major non-terminal embedded in a scaffold program, realised with resolvable and "
                "unresolvable identifier lexemes; (b) the same with one terminal replaced by a hostile lexeme (20-digit numerals, odd "
                "hex, huge hex, multi-byte strings, oversized indices); (c) seeded token-level mutations (delete, duplicate, swap, "
                "splice, literal stretching) of the example corpus; (d) nesting to depth 64; (e) every sentence with one name for all its identifiers, and definitions that mention themselves or each other 2..8 times; (f) alternative coverage: from each root every derivation deviating at most once (twice where cheap) from the shortest expansions, so that every alternative of every rule is derived. Each string is parsed and analysed in "
                "an isolated child. non-trivial: the string parses (analysis is reached); distinct = distinct strings.")
    rep.assumptions = ["TLC 1.8, Json module", "Grammar.tla regenerated from the pest file on every run (repetitions bounded to 2)",
                       "a hang is observed as a 30 s timeout of the driver child", "accept vs reject is not predicted (outcome alphabet only)"]
    core.build_driver()
    regenerate_grammar()
    quick = tier == "quick"
    sources = build_sources(rep, tier, seed, multiline=True)
    tr, evs, index = run_sources(sources, "c12", False, 8 if quick else 12)
    rep.add_trace(tr)
    rep.traces = len(sources)
    rep.evaluations = len(sources)
    for e in evs:
        src_i = -1
        for x in e:
            if x["ev"] == "Analyzed":
                rep.distinct.add(core.digest(len(rep.distinct)))
    for b in tr.bad:
        if b["why"] != "panic":
            continue
        k = locate(evs[b["case"]], b["event"])
        src = sources[index[b["case"]][k]] if k < len(index[b["case"]]) else ("?", "")
        b["_origin"] = src[0]
        rep.violation(sig_of(b), f"{b['why']} {b['detail']} origin={src[0]}", {"cmd": "frontend", "source": src[1], "origin": src[0], "why": b["why"], "detail": b["detail"]})
    canary(rep, "c12")
    rep.samples = [{"origin": sources[k][0], "source": sources[k][1][:300]} for k in (0, len(sources) // 3, len(sources) // 2)]
    return rep.finish()


def check_c19(tier, seed):
    rep = core.Report("C19", tier, seed)
    rep.rule = ("the C12 generators (grammar sentences incl. hostile lexemes, token mutations of the examples, laid out over one, "
                "several and many lines with multi-byte characters in strings and comments) and the C13 mutants; every parse "
                "diagnostic must lie within the text it carries (start <= end <= length, character boundaries) and render; every "
                "analysis diagnostic with a real location must lie within the input and, for not-in-scope errors, locate exactly "
                "the name reported. non-trivial: the source produced at least one diagnostic; distinct = distinct sources.")
    rep.assumptions = ["TLC 1.8, Json module", "spans are read from the public fields of parsing::Error and analyzing::Error::span()",
                       "rendering is exercised through miette's Report Debug output"]
    core.build_driver()
    regenerate_grammar()
    quick = tier == "quick"
    sources = build_sources(rep, tier, seed, multiline=True)
    from . import mutants
    msrc = mutants.mutant_sources(rep, tier, seed)
    sources += [("mutant:" + m["name"], s) for m, s in msrc]
    tr, evs, index = run_sources(sources, "c19", False, 8 if quick else 12)
    rep.add_trace(tr)
    rep.traces = len(sources)
    rep.evaluations = len(sources)
    ndiag = 0
    for e in evs:
        for x in e:
            if (x["ev"] == "Parsed" and x["outcome"] == "err") or (x["ev"] == "Analyzed" and x.get("errors")):
                ndiag += 1
                rep.distinct.add(core.digest(ndiag))
    rep.extra["sources_with_diagnostics"] = ndiag
    for b in tr.bad:
        if b["why"] not in ("parse-span", "analyze-span", "render"):
            continue
        k = locate(evs[b["case"]], b["event"])
        src = sources[index[b["case"]][k]] if k < len(index[b["case"]]) else ("?", "")
        rep.violation(sig_of(b), f"{b['why']} {b['detail']} origin={src[0]}", {"cmd": "frontend", "source": src[1], "origin": src[0], "why": b["why"], "detail": b["detail"]})
    canary(rep, "c19")
    rep.samples = [{"origin": sources[k][0], "source": sources[k][1][:300]} for k in (1, len(sources) // 2)]
    return rep.finish()


def canary(rep, tag):
    evs = [[{"ev": "Source", "len": 5}, {"ev": "Parsed", "outcome": "panic", "site": "x", "msg": "y", "src_len": 0, "input_len": 0, "start": 0,
                                          "end": 0, "dummy": True, "start_on_boundary": True, "end_on_boundary": True, "rendered": "ok"}],
           [{"ev": "Source", "len": 5}, {"ev": "Parsed", "outcome": "err", "site": "", "msg": "", "src_len": 4, "input_len": 50, "start": 30,
                                          "end": 30, "dummy": False, "start_on_boundary": False, "end_on_boundary": False, "rendered": "ok"}],
           [{"ev": "Source", "len": 5}, {"ev": "Parsed", "outcome": "ok", "site": "", "msg": "", "src_len": 0, "input_len": 0, "start": 0, "end": 0,
                                          "dummy": True, "start_on_boundary": True, "end_on_boundary": True, "rendered": "ok"},
            {"ev": "Analyzed", "outcome": "ok", "site": "", "msg": "", "n": 0, "errors": []},
            {"ev": "Lowered", "tx": "t", "outcome": "err", "kind": "InvalidAst", "n_errors": 0, "site": "", "msg": ""}]]
    tr = core.tlc_trace("Trace_Frontend", evs, tag + "_canary", nproc=1)
    whys = {(x["case"], x["why"]) for x in tr.bad}
    if not ({(0, "panic"), (1, "parse-span"), (2, "lower-contract")} <= whys):
        raise core.ToolError(f"canary not rejected: binding broken ({tr.bad})")
    rep.extra["canary_rejected"] = True


def replay(doc):
    core.build_driver()
    src = doc["replay"]["source"]
    tr, evs, index = run_sources([("replay", src)], "fe_replay", doc["property"] == "C13", 1)
    print(core.json.dumps({"source": src, "events": evs[0], "bad": tr.bad}, indent=1)[:20000])
    return 1 if tr.bad else 0
