"""C16 - JSON arguments are coerced faithfully and safely at the service boundary."""
import base64
import copy
import random

from . import core
from .core import I

MCFG = """CONSTANTS
  Mode = "{mode}"
INIT Init
NEXT Next
INVARIANTS EmitCase
CHECK_DEADLOCK FALSE
"""

# ---- bech32 (BIP-173), realisation only --------------------------------------------------
_CH = "qpzry9x8gf2tvdw0s3jn54khce6mua7l"


def _polymod(values):
    gen = [0x3B6A57B2, 0x26508E6D, 0x1EA119FA, 0x3D4233DD, 0x2A1462B3]
    chk = 1
    for v in values:
        b = chk >> 25
        chk = (chk & 0x1FFFFFF) << 5 ^ v
        for i in range(5):
            chk ^= gen[i] if ((b >> i) & 1) else 0
    return chk


def _convertbits(data, frm, to):
    acc = bits = 0
    out = []
    for v in data:
        acc = (acc << frm) | v
        bits += frm
        while bits >= to:
            bits -= to
            out.append((acc >> bits) & ((1 << to) - 1))
    if bits:
        out.append((acc << (to - bits)) & ((1 << to) - 1))
    return out


def bech32(hrp, data):
    d5 = _convertbits(data, 8, 5)
    hx = [ord(c) >> 5 for c in hrp] + [0] + [ord(c) & 31 for c in hrp]
    pm = _polymod(hx + d5 + [0] * 6) ^ 1
    chk = [(pm >> 5 * (5 - i)) & 31 for i in range(6)]
    return hrp + "1" + "".join(_CH[x] for x in d5 + chk)


def hexs(b):
    return "".join("%02x" % x for x in b)


def bytes_of(n):
    return [(37 * k + 11) % 256 for k in range(n)]


def realise_form(c):
    """-> (json value, abstract value term)"""
    t, f = c["type"], c["form"]
    if t == "Int":
        v = core.unbig(c["int"])
        term = {"k": "number", "num": I(v)}
        if f == "number":
            return v, term
        if f == "decimal_string":
            return str(v), term
        if f == "hex16":
            return "0x" + (v % (1 << 128)).to_bytes(16, "big").hex(), term
    if t == "Bool":
        b = c["flag"]
        term = {"k": "bool", "flag": b}
        return {"literal": b, "number01": 1 if b else 0, "string": "true" if b else "false"}[f], term
    if t == "Bytes":
        bs = bytes_of(c["len"])
        term = {"k": "bytes", "v": bs}
        h = hexs(bs)
        if f == "hex":
            return h, term
        if f == "hex0x":
            return "0x" + h, term
        if f == "envelope_hex":
            return {"content": h, "contentType": "hex"}, term
        if f == "envelope_hex0x":
            return {"content": "0x" + h, "contentType": "hex"}, term
        if f == "envelope_base64":
            return {"content": base64.b64encode(bytes(bs)).decode(), "contentType": "base64"}, term
        if f == "envelope_alias_keys":
            return {"bytecode": h, "encoding": "hex"}, term
    if t == "Address":
        # content without the hex digit 1 (and ending in c1 for the short one): with a header such as e1 / f1 / ab the hex
        # form is "letters, then 1, then no further 1", the shape of a bech32 string
        body = [[0xA0, 0xB2, 0xC3, 0xD4, 0xE5, 0xF6, 0x07, 0x28, 0x39, 0x4A, 0x5B, 0x6C, 0x7D, 0x8E, 0x9F][k % 15] for k in range(c["len"] - 1)]
        if c["len"] == 2:
            body = [0xC1]
        bs = [core.unbig(c["int"])] + body
        term = {"k": "address", "v": bs}
        if f == "bech32":
            return bech32("addr_test", bs), term
        if f == "hex":
            return hexs(bs), term
        if f == "hex0x":
            return "0x" + hexs(bs), term
    if t == "UtxoRef":
        bs = bytes_of(c["len"])
        ix = core.unbig(c["int"])
        return hexs(bs) + "#" + str(ix), {"k": "utxo_refs", "refs": [{"txid": bs, "index": ix}]}
    raise core.ToolError(f"cannot realise {c}")


SHAPES = {
    "null": None, "float": 1.5, "array": [1, 2], "nested_object": {"a": {"b": 1}}, "odd_hex": "abc", "non_hex_text": "zz-not-hex",
    "hex15": "0x" + "ab" * 15, "hex17": "0x" + "ab" * 17, "bad_base64": {"content": "@@@", "contentType": "base64"},
    "envelope_unknown_encoding": {"content": "00", "contentType": "rot13"}, "envelope_missing_content": {"contentType": "hex"},
    "bool_for_int": True, "number_for_bytes": 1, "number_2": 2, "string_yes": "yes", "ref_without_hash": "abcd",
    "ref_bad_index": "abcd#x", "ref_odd_txid": "abc#1", "number_too_big": 1e40, "empty_string": "",
    # texts whose second / third byte is inside a multi-byte character (where a two-byte prefix would be cut)
    "text_a_euro": "a\u20ac", "text_euro": "\u20ac", "text_emoji": "\U0001F600" + "00", "text_zero_e_acute": "0\u00e9", "text_0x_euro": "0x\u20ac1",
}

PARAM_TYPES = {"quantity": "Int", "owner": "Address", "memo": "Bytes", "flag": "Bool"}
SUPPLIED = {"quantity": (12345678901234567890, {"k": "number", "num": I(12345678901234567890)}),
            "owner": (None, None), "memo": ("0xdeadbeef", {"k": "bytes", "v": [0xDE, 0xAD, 0xBE, 0xEF]}),
            "flag": (True, {"k": "bool", "flag": True})}
OWNER = [0x60] + bytes_of(28)
SUPPLIED["owner"] = (bech32("addr_test", OWNER), {"k": "address", "v": OWNER})
SUPPLIED["quantity"] = ("12345678901234567890", {"k": "number", "num": I(12345678901234567890)})


def template_tx(placement=0):
    """an IR template declaring the four parameters.  placement 0: the values reach an output and the metadata; 1, 2:
    every parameter is mentioned in ONE other section of the transaction only (signers, validity, a chain-specific
    directive, a burn / mint, an input redeemer, collateral, references) -- what the request parser hands over is what
    the template declares, wherever it declares it"""
    pv = lambda n, t: {"k": "p_value", "name": n, "ty": t}  # noqa
    none = {"k": "none"}
    lovelace = lambda e: {"k": "assets", "items": [{"policy": none, "name": none, "amount": e}]}  # noqa
    const_out = {"address": {"k": "address", "v": OWNER}, "datum": none, "amount": lovelace({"k": "number", "num": I(2000000)}), "optional": False}
    if placement == 1:
        return {"fees": {"k": "p_fees"}, "references": [], "inputs": [], "outputs": [const_out],
                "validity": {"k": "some", "since": pv("quantity", "Int"), "until": none}, "mints": [], "burns": [],
                "adhoc": [{"name": "custom", "data": [{"key": "note", "val": pv("memo", "Bytes")}]}],
                "collateral": [], "signers": {"k": "some", "items": [pv("owner", "Address")]},
                "metadata": [{"key": {"k": "number", "num": I(1)}, "value": pv("flag", "Bool")}]}
    if placement == 2:
        q = {"address": pv("owner", "Address"), "min_amount": none, "ref": none, "many": False, "collateral": True}
        return {"fees": {"k": "p_fees"}, "references": [pv("memo", "Bytes")],
                "inputs": [{"name": "src", "utxos": {"k": "utxo_set", "utxos": []}, "redeemer": pv("flag", "Bool")}], "outputs": [const_out],
                "validity": {"k": "none"}, "mints": [],
                "burns": [{"amount": {"k": "assets", "items": [{"policy": {"k": "bytes", "v": [0x11] * 28}, "name": {"k": "bytes", "v": [97]},
                                                                "amount": pv("quantity", "Int")}]}, "redeemer": none}],
                "adhoc": [], "collateral": [{"utxos": {"k": "p_input", "name": "collateral", "q": q}}], "signers": {"k": "none"}, "metadata": []}
    return {"fees": {"k": "p_fees"}, "references": [], "inputs": [],
            "outputs": [{"address": pv("owner", "Address"), "datum": pv("flag", "Bool"),
                         "amount": {"k": "assets", "items": [{"policy": none, "name": none, "amount": pv("quantity", "Int")}]}, "optional": False}],
            "validity": {"k": "none"}, "mints": [], "burns": [], "adhoc": [], "collateral": [], "signers": {"k": "none"},
            "metadata": [{"key": {"k": "number", "num": I(1)}, "value": pv("memo", "Bytes")}]}


def envelope(kind, tir_hex):
    if kind == "ok":
        return {"content": tir_hex, "encoding": "hex", "version": "v1beta0"}
    if kind == "base64_ok":
        return {"content": base64.b64encode(bytes.fromhex(tir_hex)).decode(), "encoding": "base64", "version": "v1beta0"}
    if kind == "bad_content":
        return {"content": tir_hex[:-1], "encoding": "hex", "version": "v1beta0"}          # odd number of hex digits
    if kind == "bad_base64":
        return {"content": "@@not base64@@", "encoding": "base64", "version": "v1beta0"}
    if kind == "bad_encoding":
        return {"content": tir_hex, "encoding": "rot13", "version": "v1beta0"}
    if kind == "bad_version":
        return {"content": tir_hex, "encoding": "hex", "version": "v9"}
    if kind == "retired_version":
        return {"content": tir_hex, "encoding": "hex", "version": "v1alpha8"}
    if kind == "garbage_cbor":
        return {"content": "ff" + tir_hex[2:40], "encoding": "hex", "version": "v1beta0"}
    raise core.ToolError(kind)


def sig_of(b):
    import re
    d = b["detail"]
    if b["why"] == "panic":
        return f"panic|{d.get('op')}|{d.get('site')}|" + re.sub(r"\d+", "N", str(d.get("msg")))[:90]
    if b["why"] in ("rejected", "altered", "accepted"):
        return f"{b['why']}|{d.get('type')}|{d.get('form')}"
    if b["why"] == "request-keys":
        return f"request-keys|missing_from_env={d.get('missing_from_env')}|extra={d.get('extra')}"
    return f"{b['why']}|{d.get('envelope', '')}"


def check(tier, seed):
    rep = core.Report("C16", tier, seed)
    rep.rule = ("(a) every argument type x value class (integers across the i128 range, byte strings of 0..40 bytes, both booleans, key and "
                "base addresses, UTxO refs) x every admissible textual form (numbers, decimal strings, 0x 16-byte hex, hex with/without "
                "0x, hex/base64 envelopes incl. alias keys, bech32, txid#index) must be inverted exactly; every type x 20 ill-formed "
                "shapes must be rejected; (b) request documents: all 2^4 x 2^4 placements of four declared parameters in the `args` and "
                "`env` maps, undeclared extras, 8 envelope variants (valid hex/base64, odd hex, bad base64, unknown encoding, unknown and "
                "retired version, garbage CBOR); plus seeded random JSON documents. non-trivial: a form case whose value is not the "
                "type's default, or a request with a parameter only in `env`; distinct = distinct cases.")
    rep.assumptions = ["TLC 1.8, Json module, BigInt.tla", "hex / base64 / bech32 texts are produced by the realisation step (gen/c16.py) and are not specified",
                       "JSON numbers carry at most 64 bits (serde_json without arbitrary precision)"]
    core.build_driver()
    quick = tier == "quick"
    rng = random.Random(seed)
    forms = core.tlc_mc("MC_Interop", MCFG.format(mode="forms"), "c16_forms", workers=4, timeout=600)
    rep.add_tlc(forms)
    reqs = core.tlc_mc("MC_Interop", MCFG.format(mode="requests"), "c16_reqs", workers=4, timeout=600)
    rep.add_tlc(reqs)
    rep.exhaustive = True
    # the template the requests carry
    encs = core.run_driver([{"id": 0, "cmd": "interop", "items": [{"op": "encode_tir", "tx": template_tx(k)} for k in (0, 1, 2)]}])[0]["events"]
    tir_hexes = [e["hex"] for e in encs]
    tir_hex = tir_hexes[0]
    items, meta = [], []
    for c in forms.cases:
        c = dict(c)
        if c["kind"] == "form":
            jv, term = realise_form(c)
        else:
            jv, term = SHAPES[c["form"]], {"k": "none"}
        tag = {"type": c["type"], "form": c["form"], "kind": c["kind"], "int": core.untlcify(c["int"]), "value": term, "site": "", "msg": ""}
        items.append({"op": "from_json", "type": c["type"], "json": jv, "tag": tag})
        meta.append(c)
        if c["kind"] == "form" and (c["len"] or c["flag"] or core.unbig(c["int"]) != 0):
            rep.distinct.add(core.digest(tag))
    nforms = len(items)
    for c in reqs.cases:
        args = {k: SUPPLIED[k][0] for k in c["args"]}
        envm = {k: SUPPLIED[k][0] for k in c["env"]}
        if c["extras"]:
            args["undeclared"] = 5
            envm["also_undeclared"] = "x"
        doc = {"tir": envelope(c["envelope"], tir_hexes[len(items) % 3]), "args": args, "env": envm}
        tag = {"declared": sorted(PARAM_TYPES), "args": sorted(c["args"]), "env": sorted(c["env"]), "envelope": c["envelope"],
               "envelope_class": "ok" if c["envelope"] in ("ok", "base64_ok") else "bad",
               "supplied": {k: v[1] for k, v in SUPPLIED.items()}, "site": "", "msg": ""}
        items.append({"op": "request", "doc": doc, "tag": tag})
        meta.append(c)
        if set(c["env"]) - set(c["args"]):
            rep.distinct.add(core.digest([c["args"], c["env"], c["extras"], c["envelope"]]))
    # random JSON documents / values (no-panic half)
    def rjson(d):
        k = rng.randint(0, 8 if d > 0 else 5)
        return [None, True, rng.randint(-2**70, 2**70), rng.random() * 1e30, "", "0x" + "f" * rng.randint(0, 40),
                [rjson(d - 1) for _ in range(rng.randint(0, 3))] if d > 0 else 0,
                {rng.choice(["content", "contentType", "encoding", "tir", "args", "env", "version", "x"]): rjson(d - 1) for _ in range(rng.randint(0, 4))} if d > 0 else 1,
                "é" * rng.randint(0, 5)][k]
    nrand = 2000 if quick else 40000
    for _ in range(nrand):
        if rng.random() < 0.6:
            t = rng.choice(["Int", "Bool", "Bytes", "Address", "UtxoRef", "Undefined", "List", "Custom:X"])
            items.append({"op": "from_json", "type": t, "json": rjson(2),
                          "tag": {"type": t, "form": "random", "kind": "random", "int": I(0), "value": {"k": "none"}, "site": "", "msg": ""}})
        else:
            doc = rjson(3)
            if isinstance(doc, dict) and rng.random() < 0.7:
                doc.setdefault("tir", envelope(rng.choice(["ok", "bad_content", "garbage_cbor"]), tir_hex))
                doc.setdefault("args", rjson(1) if rng.random() < 0.5 else {"quantity": rjson(1)})
            items.append({"op": "request", "doc": doc,
                          "tag": {"declared": [], "args": [], "env": [], "envelope": "random", "envelope_class": "bad", "supplied": {}, "site": "", "msg": ""}})
        meta.append({"kind": "random"})
    rep.extra["form_cases"] = nforms
    rep.extra["request_cases"] = len(reqs.cases)
    rep.extra["random_documents"] = nrand
    batch = 200
    jobs = [{"id": i // batch, "cmd": "interop", "items": items[i:i + batch]} for i in range(0, len(items), batch)]
    results = core.run_driver(jobs)
    evs = []
    for j in jobs:
        r = results[j["id"]]
        if "events" not in r:
            raise core.ToolError(f"driver died in interop batch {j['id']}: {r}")
        out = []
        for e in r["events"]:
            if e["ev"] == "FromJson" and e.get("kind") == "random":
                # random values: only the outcome alphabet is judged
                e = dict(e, kind="shape", form="null", type="Int") if e["outcome"] == "panic" else None
            elif e["ev"] == "Request" and e.get("envelope") == "random" and e["outcome"] != "panic":
                e = None
            if e is not None:
                out.append(e)
        evs.append(out)
    tr = core.tlc_trace("Trace_Interop", evs, "c16", nproc=6)
    rep.add_trace(tr)
    rep.traces = len(items)
    rep.evaluations = len(items)
    for b in tr.bad:
        ev = evs[b["case"]][b["event"]]
        rep.violation(sig_of(b), f"{b['why']} {b['detail']}", {"cmd": "interop", "event": {k: v for k, v in ev.items() if k != "supplied"},
                                                              "why": b["why"], "detail": b["detail"]})
    canary(rep, evs)
    rep.samples = [{"item": items[3]}, {"request_doc": {k: (v if k != "tir" else {**v, "content": v["content"][:40] + "..."}) for k, v in items[nforms + 5]["doc"].items()}}]
    return rep.finish()


def canary(rep, evs):
    a = None
    for e in evs:
        for x in e:
            if x["ev"] == "FromJson" and x.get("kind") == "form" and x["outcome"] == "ok" and x["type"] == "Int":
                a = copy.deepcopy(x)
                break
        if a:
            break
    if a is None:
        raise core.ToolError("canary: no integer form case")
    a["got"] = {"k": "number", "num": I(int(a["got"]["num"]["I"]) + 1)}
    tr = core.tlc_trace("Trace_Interop", [[a]], "c16_canary", nproc=1)
    if not any(x["why"] == "altered" for x in tr.bad):
        raise core.ToolError(f"canary not rejected: binding broken ({tr.bad})")
    rep.extra["canary_rejected"] = True


def replay(doc):
    print(core.json.dumps(doc["replay"], indent=1)[:6000])
    return 1
