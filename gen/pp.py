"""Pretty-printer: abstract program (vocabulary of spec/Lang.tla) -> tx3 source text, in several
whitespace / comment layouts.  It is the `print` of the property: it knows the grammar (token
order, where whitespace is required, left-associativity of + and -) and nothing about meaning."""
import random

from . import core


def _bytes_hex(b):
    return "".join("%02x" % x for x in b)


def _int(n):
    if isinstance(n, dict) and "I" in n:
        return int(n["I"])
    if isinstance(n, dict):
        return core.unbig(n)
    return int(n)


class T(list):
    """token list builder"""

    def w(self, *toks):
        self.extend(toks)
        return self


def expr(e, out):
    k = e["k"]
    if k == "int":
        out.w(str(_int(e["n"])))
    elif k == "hex":
        out.w("0x" + _bytes_hex(e["v"]))
    elif k == "str":
        out.w('"' + bytes(e["v"]).decode("utf-8") + '"')
    elif k == "bool":
        out.w("true" if e["flag"] else "false")
    elif k == "unit":
        out.w("()")
    elif k == "id":
        out.w(e["name"])
    elif k == "paren":
        out.w("(")
        expr(e["a"], out)
        out.w(")")
    elif k in ("add", "sub"):
        expr(e["a"], out)
        out.w("+" if k == "add" else "-")
        # + and - associate to the left: a right operand that is itself a sum needs parentheses
        if e["b"]["k"] in ("add", "sub"):
            out.w("(")
            expr(e["b"], out)
            out.w(")")
        else:
            expr(e["b"], out)
    elif k == "neg":
        out.w("!")
        if e["a"]["k"] in ("add", "sub"):
            out.w("(")
            expr(e["a"], out)
            out.w(")")
        else:
            expr(e["a"], out)
    elif k == "concat":
        out.w("concat", "(")
        expr(e["a"], out)
        out.w(",")
        expr(e["b"], out)
        out.w(")")
    elif k == "prop":
        expr(e["a"], out)
        out.w(".", e["field"])
    elif k == "index":
        expr(e["a"], out)
        out.w("[")
        expr(e["i"], out)
        out.w("]")
    elif k == "ctor":
        out.w(e["ty"])
        if e["case"] != "":
            out.w("::", cname(e["case"]))
        out.w("{")
        for f in e["fields"]:
            out.w(f["name"], ":")
            expr(f["e"], out)
            out.w(",")
        if e["spread"]["k"] != "absent":
            out.w("...")
            expr(e["spread"], out)
        out.w("}")
    elif k == "list":
        out.w("[")
        for i, x in enumerate(e["items"]):
            if i:
                out.w(",")
            expr(x, out)
        out.w("]")
    elif k == "map":
        out.w("{")
        for p in e["pairs"]:
            expr(p["a"], out)
            out.w(":")
            expr(p["b"], out)
            out.w(",")
        out.w("}")
    elif k == "ada":
        out.w("Ada", "(")
        expr(e["a"], out)
        out.w(")")
    elif k == "tok":
        out.w(e["name"], "(")
        expr(e["a"], out)
        out.w(")")
    elif k == "anyasset":
        out.w("AnyAsset", "(")
        expr(e["p"], out)
        out.w(",")
        expr(e["n"], out)
        out.w(",")
        expr(e["amt"], out)
        out.w(")")
    elif k == "tip_slot":
        out.w("tip_slot", "(", ")")
    elif k in ("slot_to_time", "time_to_slot"):
        out.w(k, "(")
        expr(e["a"], out)
        out.w(")")
    elif k == "min_utxo":
        out.w("min_utxo", "(", e["out"], ")")
    elif k == "utxo_ref":
        out.w("0x" + _bytes_hex(e["txid"]) + "#" + str(e["index"]))
    elif k == "utxo_ref_wide":
        out.w("0x" + _bytes_hex(e["txid"]) + "#" + str(2**32 + e["index"]))
    elif k == "raw":
        out.w(e["text"])
    else:
        raise core.ToolError(f"pp: unknown expression tag {k}")


def cname(x):
    """case names are strings, or integers printed as C<i> (generated many-case types)"""
    return x if isinstance(x, str) else "C%d" % int(x)


def absent(x):
    return x is None or (isinstance(x, dict) and x.get("k") == "absent")


def field(out, name, e):
    if not absent(e):
        out.w(name, ":")
        expr(e, out)
        out.w(",")


def type_name(ty):
    return ty


def program_tokens(P, txname="t"):
    d, t = P["decls"], P["tx"]
    out = T()
    if d.get("envs"):
        out.w("env", "{")
        for e in d["envs"]:
            out.w(e["name"], ":", type_name(e["ty"]), ",")
        out.w("}")
    for p in d.get("parties", []):
        out.w("party", p["name"], ";")
    for p in d.get("policies", []):
        out.w("policy", p["name"], "=", "0x" + _bytes_hex(p["hash"]), ";")
    for a in d.get("assets", []):
        out.w("asset", a["name"], "=", "0x" + _bytes_hex(a["policy"]), ".", '"' + bytes(a["asset_name"]).decode() + '"', ";")
    for ty in d.get("types", []):
        out.w("type", ty["name"], "{")
        if ty.get("record"):
            for f in ty["cases"][0]["fields"]:
                out.w(f["name"], ":", type_name(f["ty"]), ",")
        else:
            for c in ty["cases"]:
                out.w(cname(c["name"]))
                if c["fields"]:
                    out.w("{")
                    for f in c["fields"]:
                        out.w(f["name"], ":", type_name(f["ty"]), ",")
                    out.w("}")
                out.w(",")
        out.w("}")
    out.w("tx", txname, "(")
    for p in t["params"]:
        out.w(p["name"], ":", type_name(p["ty"]), ",")
    out.w(")", "{")
    if t.get("locals"):
        out.w("locals", "{")
        for l in t["locals"]:
            out.w(l["name"], ":")
            expr(l["e"], out)
            out.w(",")
        out.w("}")
    for r in t.get("references", []):
        out.w("reference", r["name"], "{", "ref", ":")
        expr(r["ref"], out)
        out.w(",", "}")
    for i in t.get("inputs", []):
        out.w("input")
        if i["many"]:
            out.w("*")
        out.w(i["name"], "{")
        field(out, "from", i["from"])
        if i.get("datum_is"):
            out.w("datum_is", ":", i["datum_is"], ",")
        field(out, "min_amount", i["min_amount"])
        field(out, "ref", i["ref"])
        field(out, "redeemer", i["redeemer"])
        out.w("}")
    if not absent(t.get("collateral")):
        c = t["collateral"]
        out.w("collateral", "{")
        field(out, "from", c["from"])
        field(out, "min_amount", c["min_amount"])
        field(out, "ref", c["ref"])
        out.w("}")
    for kind in ("mints", "burns"):
        for m in t.get(kind, []):
            out.w("mint" if kind == "mints" else "burn", "{")
            field(out, "amount", m["amount"])
            field(out, "redeemer", m["redeemer"])
            out.w("}")
    for o in t.get("outputs", []):
        out.w("output")
        if o["optional"]:
            out.w("?")
        if o["name"]:
            out.w(o["name"])
        out.w("{")
        field(out, "to", o["to"])
        field(out, "amount", o["amount"])
        field(out, "datum", o["datum"])
        out.w("}")
    if not absent(t.get("validity")):
        out.w("validity", "{")
        field(out, "since_slot", t["validity"]["since"])
        field(out, "until_slot", t["validity"]["until"])
        out.w("}")
    if not absent(t.get("signers")):
        out.w("signers", "{")
        for s in t["signers"]["items"]:
            expr(s, out)
            out.w(",")
        out.w("}")
    if not absent(t.get("metadata")):
        out.w("metadata", "{")
        for m in t["metadata"]["items"]:
            expr(m["key"], out)
            out.w(":")
            expr(m["value"], out)
            out.w(",")
        out.w("}")
    for b in t.get("cardano", []):
        if b["k"] == "donation":
            out.w("cardano", "::", "treasury_donation", "{")
            field(out, "coin", b["coin"])
        elif b["k"] == "plutus_witness":
            out.w("cardano", "::", "plutus_witness", "{")
            field(out, "version", b["version"])
            field(out, "script", b["script"])
        elif b["k"] == "native_witness":
            out.w("cardano", "::", "native_witness", "{")
            field(out, "script", b["script"])
        elif b["k"] == "publish":
            out.w("cardano", "::", "publish", "{")
            for f in ("to", "amount", "datum", "version", "script"):
                field(out, f, b[f])
        elif b["k"] == "vote_deleg":
            out.w("cardano", "::", "vote_delegation_certificate", "{")
            field(out, "drep", b["drep"])
            field(out, "stake", b["stake"])
        out.w("}")
    for w in t.get("withdrawals", []):
        out.w("cardano", "::", "withdrawal", "{")
        field(out, "from", w["from"])
        field(out, "amount", w["amount"])
        field(out, "redeemer", w["redeemer"])
        out.w("}")
    out.w("}")
    return out


def _wordish(c):
    return c.isalnum() or c == "_"


def needs_space(a, b):
    """whitespace is REQUIRED between two tokens when gluing them would change the token stream"""
    if not a or not b:
        return False
    x, y = a[-1], b[0]
    if _wordish(x) and _wordish(y):
        return True
    if x == '"' or y == '"':
        return False
    if a in ("-", "+") and (y.isdigit()):
        return True      # `- 1` must not become a negative literal where a binary minus is meant
    if x == "." and y == ".":
        return True
    if a.startswith("0x") and y in "#":
        return True
    if x == ":" and y == ":":
        return True
    if a.startswith("0x") and y == ".":
        return False
    if x == "/" or y == "/" or y == "*" and x == "/":
        return True
    return False


def no_gap_allowed(a, b):
    """places where the grammar does not allow trivia between two of our tokens"""
    return False


def layout(tokens, mode, seed=0):
    rng = random.Random(seed)
    parts = []
    for i, t in enumerate(tokens):
        if i:
            a = tokens[i - 1]
            if mode == 0:
                parts.append(" " if needs_space(a, t) else "")
            elif mode == 1:
                r = rng.random()
                if r < 0.35:
                    parts.append(" /* c%d */ " % i)
                elif r < 0.5:
                    parts.append(" // line %d\n" % i)
                elif r < 0.8:
                    parts.append("  ")
                else:
                    parts.append("\t \r\n ")
            else:
                parts.append("\n" if rng.random() < 0.8 else "\n\n    ")
        parts.append(t)
    text = "".join(parts)
    if mode == 1:
        text = "// header comment é€\n/* block\n comment */" + text + " // trailing"
    elif mode == 2:
        text = "\n\n" + text + "\n"
    return text


def sources(P, txname="t", seed=0):
    toks = program_tokens(P, txname)
    return [layout(toks, m, seed) for m in (0, 1, 2)]
