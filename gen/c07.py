from .staging import check_c07 as check, replay  # noqa
