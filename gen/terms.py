"""Seeded random generator of abstract IR terms (vocabulary of spec/Tir.tla), used for the
large-scope random halves of C11 and C14.  It only builds syntax; it judges nothing."""
from .core import I

TYPES = ["Undefined", "Unit", "Int", "Bool", "Bytes", "Address", "Utxo", "UtxoRef", "AnyAsset", "List", "Map", "Custom:T"]
INTS = [0, 1, -1, 23, 24, 255, 256, 65535, 65536, 2**31, -2**31, 2**63 - 1, 2**63, -2**63, 2**64 - 1, 2**64, -2**64,
        2**127 - 1, -2**127]


def rbytes(rng, lens=(0, 1, 2, 27, 28, 29, 31, 32, 33, 57, 64)):
    n = rng.choice(lens)
    return [rng.randint(0, 255) for _ in range(n)]


def rutxo(rng, depth):
    return {"ref": {"txid": rbytes(rng, (0, 1, 32)), "index": rng.choice([0, 1, 7, 65535, 2**32 - 1])},
            "address": rbytes(rng, (0, 1, 29, 57)),
            "assets": [{"c": {"k": "naked"}, "n": I(rng.choice(INTS))}] +
                      ([{"c": {"k": "defined", "policy": rbytes(rng, (28,)), "name": rbytes(rng, (0, 3, 32))},
                         "n": I(rng.choice(INTS))}] if rng.random() < 0.5 else []),
            "datum": rterm(rng, min(depth, 1), const=True) if rng.random() < 0.5 else {"k": "none"}}


def rleaf(rng, const=False):
    k = rng.randint(0, 13 if not const else 9)
    if k == 0:
        return {"k": "none"}
    if k == 1:
        return {"k": "number", "num": I(rng.choice(INTS))}
    if k == 2:
        return {"k": "bytes", "v": rbytes(rng)}
    if k == 3:
        return {"k": "bool", "flag": rng.random() < 0.5}
    if k == 4:
        return {"k": "string", "v": list(rng.choice(["", "a", "hé€", "x" * 70]).encode())}
    if k == 5:
        return {"k": "address", "v": rbytes(rng, (0, 1, 29, 57))}
    if k == 6:
        return {"k": "hash", "v": rbytes(rng, (0, 27, 28, 29, 32))}
    if k == 7:
        return {"k": "utxo_refs", "refs": [{"txid": rbytes(rng, (0, 32)), "index": rng.choice([0, 1, 2**32 - 1])}
                                           for _ in range(rng.randint(0, 2))]}
    if k == 8:
        return {"k": "utxo_set", "utxos": [rutxo(rng, 1) for _ in range(rng.randint(0, 2))]}
    if k == 9:
        return {"k": "list", "items": []}
    if k == 10:
        # one declared type per name (a name with two types is not a well-formed template)
        i = rng.randrange(len(TYPES))
        return {"k": "p_value", "name": "p%d" % i, "ty": TYPES[i]}
    if k == 11:
        return {"k": "p_fees"}
    if k == 12:
        return {"k": "c_tip_slot"}
    return {"k": "p_input", "name": rng.choice(["src", "other"]),
            "q": {"address": rleaf(rng, True), "min_amount": rleaf(rng, True), "ref": rleaf(rng, True),
                  "many": rng.random() < 0.5, "collateral": rng.random() < 0.3}}


UN = ["p_set", "negate", "noop", "c_script_address", "c_min_utxo", "c_slot_to_time", "c_time_to_slot",
      "co_noop", "into_assets", "into_datum", "into_script"]
BIN = ["add", "sub", "concat", "property", "tuple"]


def rterm(rng, depth, const=False):
    if depth <= 0 or rng.random() < 0.25:
        return rleaf(rng, const)
    r = rng.random()
    sub = lambda: rterm(rng, depth - 1, const)  # noqa
    if const:
        r = r * 0.5
    if r < 0.12:
        return {"k": "list", "items": [sub() for _ in range(rng.randint(0, 3))]}
    if r < 0.22:
        return {"k": "map", "pairs": [{"a": sub(), "b": sub()} for _ in range(rng.randint(0, 2))]}
    if r < 0.3:
        return {"k": "tuple", "a": sub(), "b": sub()}
    if r < 0.42:
        return {"k": "struct", "ctor": rng.choice([0, 1, 6, 7, 127, 128, 139]), "fields": [sub() for _ in range(rng.randint(0, 3))]}
    if r < 0.5:
        return {"k": "assets", "items": [{"policy": sub(), "name": sub(), "amount": sub()} for _ in range(rng.randint(0, 2))]}
    if r < 0.7:
        return {"k": rng.choice(UN), "a": sub()}
    if r < 0.9:
        return {"k": rng.choice(BIN), "a": sub(), "b": sub()}
    if r < 0.95:
        return {"k": "adhoc", "name": rng.choice(["withdrawal", "custom", ""]),
                "data": [{"key": k, "val": sub()} for k in rng.sample(["a", "b", "script", "amount"], rng.randint(0, 3))]}
    return {"k": "p_input", "name": rng.choice(["src", "other"]),
            "q": {"address": sub(), "min_amount": sub(), "ref": sub(), "many": rng.random() < 0.5, "collateral": False}}


def rtx(rng, depth):
    e = lambda: rterm(rng, depth)  # noqa
    n = lambda lo, hi: range(rng.randint(lo, hi))  # noqa
    return {
        "fees": rng.choice([{"k": "p_fees"}, e()]),
        "references": [e() for _ in n(0, 2)],
        "inputs": [{"name": rng.choice(["src", "a", "b"]), "utxos": e(), "redeemer": e()} for _ in n(0, 2)],
        "outputs": [{"address": e(), "datum": e(), "amount": e(), "optional": rng.random() < 0.3} for _ in n(0, 3)],
        "validity": rng.choice([{"k": "none"}, {"k": "some", "since": e(), "until": e()}]),
        "mints": [{"amount": e(), "redeemer": e()} for _ in n(0, 2)],
        "burns": [{"amount": e(), "redeemer": e()} for _ in n(0, 1)],
        "adhoc": [{"name": rng.choice(["withdrawal", "plutus_witness", "native_witness", "cardano_publish",
                                       "treasury_donation", "vote_delegation_certificate", "x"]),
                   "data": [{"key": k, "val": e()} for k in rng.sample(
                       ["amount", "credential", "redeemer", "script", "version", "to", "datum", "coin", "drep", "stake"],
                       rng.randint(0, 4))]} for _ in n(0, 2)],
        "collateral": [{"utxos": e()} for _ in n(0, 1)],
        "signers": rng.choice([{"k": "none"}, {"k": "some", "items": [e() for _ in n(0, 2)]}]),
        "metadata": [{"key": e(), "value": e()} for _ in n(0, 2)],
    }


STRETCH = [23, 24, 255, 256, 4095, 4096, 4097, 65535, 65536, 70001]


def stretched_tx(rng, n):
    """a small transaction with one long leaf: a byte string, text, address, hash, transaction id or list of n elements
    (n around the widths of a CBOR length and around the scratch-buffer sizes of common decoders), bare or wrapped, in a
    datum, a directive field or a reference"""
    kind = rng.choice(["bytes", "bytes", "string", "address", "hash", "list", "txid", "struct"])
    blob = [rng.randint(0, 255) for _ in range(n)]
    if kind == "string":
        leaf = {"k": "string", "v": [rng.choice(b"abcxyz 019") for _ in range(n)]}
    elif kind == "list":
        leaf = {"k": "list", "items": [{"k": "number", "num": I(i % 7)} for i in range(min(n, 5000))]}
    elif kind == "struct":
        leaf = {"k": "struct", "ctor": 0, "fields": [{"k": "bool", "flag": i % 2 == 0} for i in range(min(n, 5000))]}
    elif kind == "txid":
        leaf = {"k": "utxo_refs", "refs": [{"txid": blob, "index": 1}]}
    else:
        leaf = {"k": kind, "v": blob}
    w = rng.random()
    if w < 0.3:
        leaf = {"k": rng.choice(["noop", "into_datum", "into_script", "negate"]), "a": leaf}
    elif w < 0.5:
        leaf = {"k": "list", "items": [{"k": "number", "num": I(1)}, leaf]}
    tx = rtx(rng, 1)
    where = rng.choice(["datum", "adhoc", "reference", "metadata"])
    if where == "datum":
        tx["outputs"].append({"address": {"k": "address", "v": rbytes(rng, (29,))}, "datum": leaf,
                              "amount": {"k": "number", "num": I(1)}, "optional": False})
    elif where == "adhoc":
        tx["adhoc"].append({"name": "plutus_witness", "data": [{"key": "script", "val": leaf},
                                                               {"key": "version", "val": {"k": "number", "num": I(3)}}]})
    elif where == "reference":
        tx["references"].append(leaf)
    else:
        tx["metadata"].append({"key": {"k": "number", "num": I(1)}, "value": leaf})
    return tx
