"""C17 (the published interface agrees with the IR it ships) and C18 (lowering and encoding are
deterministic): both observe the real `tx3c` binary built from /repo."""
import glob
import hashlib
import os
import random
import shutil
import subprocess

from . import core, pp, langcheck

MCFG = """INIT Init
NEXT Next
INVARIANTS EmitCase
CHECK_DEADLOCK FALSE
"""


def source_for(c):
    p, party, env = c["param"], c["party"], c["env"]
    params = [f"{p}: Int"]
    parties = [party]
    amount = "Ada(" + (p if c["usedParam"] else "7") + ")"
    if c["usedEnv"]:
        amount += f" + Ada({env})"
    extra_out = ""
    pol = ""
    if c["extra"] == "unused_param":
        params.append("never_used: Bytes")
    elif c["extra"] == "case_twin_param":
        twin = p.swapcase() if p.swapcase() != p else p + "X"
        params.append(f"{twin}: Int")
        amount += f" + Ada({twin})"
    elif c["extra"] == "second_party":
        parties.append("Other")
        extra_out = f"output {{ to: Other, amount: Ada(1), }}"
    elif c["extra"] == "policy_ctor":
        pol = "policy P { hash: 0x" + "11" * 28 + ", script: 0xabcd, }\n"
    elif c["extra"] in ("two_withdrawals", "mixed_blocks"):
        params.append("w1: Int")
        parties.append("Other")
        extra_out = (f"cardano::withdrawal {{ from: Other, amount: w1, redeemer: (), }}\n  "
                     f"cardano::withdrawal {{ from: {party}, amount: {p if c['usedParam'] else 7}, redeemer: (), }}")
        if c["extra"] == "mixed_blocks":
            extra_out = (f"cardano::withdrawal {{ from: Other, amount: w1, redeemer: (), }}\n  "
                         "cardano::treasury_donation { coin: w1, }\n  cardano::plutus_witness { version: 3, script: 0x5101010023259800a518a4d136564004ae69, }")
    elif c["extra"] == "burn_only_param":
        # a parameter that only a burn block mentions (its redeemer), next to the blocks that mention the others
        params.append("tag: Int")
        extra_out = "burn { amount: AnyAsset(0x" + "cd" * 28 + ", \"t\", 1), redeemer: tag, }"
    elif c["extra"] == "signer_only_param":
        params.append("cosigner: Bytes")
        extra_out = "signers { cosigner, }"
    elif c["extra"] == "long_script":
        # an inline script of realistic size (longer than the 4 KiB scratch buffers of common CBOR readers)
        extra_out = "cardano::plutus_witness { version: 3, script: 0x" + "5a" * 5003 + ", }"
    elif c["extra"] == "long_policy_script":
        pol = "policy P { hash: 0x" + "11" * 28 + ", script: 0x" + "c3" * 4097 + ", }\n"
        extra_out = "mint { amount: AnyAsset(P, \"t\", 1), redeemer: (), }"
    elif c["extra"] == "long_datum":
        extra_out = f"output {{ to: {party}, amount: Ada(1), datum: 0x" + "07" * 70000 + ", }"
    src = f"env {{ {env}: Int, }}\n" + "".join(f"party {x};\n" for x in parties) + pol
    src += f"tx transfer({', '.join(params)}) {{\n  input source {{ from: {party}, min_amount: {amount}, }}\n"
    src += f"  output {{ to: {party}, amount: source - fees, }}\n  {extra_out}\n}}\n"
    if c["extra"] == "case_twin_tx":
        src += (f"tx Transfer(deadline: Int, tip: Int) {{\n  input source {{ from: {party}, min_amount: Ada(tip) + fees, }}\n"
                f"  output {{ to: {party}, amount: source - fees, }}\n  validity {{ until_slot: deadline, }}\n}}\n")
    return src


def run_tx3c(tx3c, src, workdir, name):
    path = os.path.join(workdir, name + ".tx3")
    out = os.path.join(workdir, name + ".tii")
    with open(path, "w") as f:
        f.write(src)
    if os.path.exists(out):
        os.remove(out)
    p = subprocess.run([tx3c, "build", path, "--emit", "tii", "-o", out], stdout=subprocess.PIPE, stderr=subprocess.PIPE, text=True, timeout=60)
    if p.returncode != 0 or not os.path.exists(out):
        return None, (p.stderr or p.stdout)[-300:]
    with open(out, "rb") as f:
        return f.read(), ""


def sig_of(b):
    d = b["detail"]
    if b["why"] == "nondeterministic":
        return f"nondeterministic|{d.get('artifact_kind')}|{d.get('where')}"
    return b["why"]


def check_c17(tier, seed):
    rep = core.Report("C17", tier, seed)
    rep.rule = ("a case is a program whose parameter, party and environment names take lower / Capitalised / UPPER / mixed spellings "
                "(5 x 4 x 3), with the parameter and the environment variable used or unused by the body, and optionally an unused "
                "parameter, a parameter differing only in case, a second party or a constructor-style policy; the real `tx3c build "
                "--emit tii` writes the interface, the driver decodes the embedded IR. Required keys must be declared under the same "
                "spelling, no two declared names may collapse, the IR must need exactly the names the body uses, and the embedded IR "
                "must equal the in-process lowering. non-trivial: some name is not all lower-case; distinct = distinct programs.")
    rep.assumptions = ["TLC 1.8, Json module", "tx3c is built from /repo's working tree into harness/target/repo",
                       "lower-casing of declared keys for the collapse check is done by the driver (Rust to_lowercase)"]
    core.build_driver()
    tx3c = core.build_tx3c()
    quick = tier == "quick"
    r = core.tlc_mc("MC_Tii", "CONSTANTS\n" + MCFG if False else MCFG, "c17_mc", workers=4, timeout=600)
    rep.add_tlc(r)
    cases = r.cases
    rng = random.Random(seed)
    if quick and len(cases) > 400:
        rng.shuffle(cases)
        cases = cases[:400]
    else:
        rep.exhaustive = True
    work = os.path.join(core.OUT, "c17_work")
    shutil.rmtree(work, ignore_errors=True)
    os.makedirs(work)
    jobs, evs_head = [], []
    for i, c in enumerate(cases):
        src = source_for(c)
        tii, err = run_tx3c(tx3c, src, work, f"p{i}")
        head = [{"ev": "Case", "nUsed": c["nUsed"]}]
        if tii is None:
            evs_head.append((head, None, err, src))
            continue
        jobs.append({"id": i, "cmd": "build", "op": "tii", "tii": tii.decode(), "source": src})
        evs_head.append((head, i, "", src))
        if any(x != x.lower() for x in (c["param"], c["party"], c["env"])):
            rep.distinct.add(core.digest(c))
    results = core.run_driver(jobs)
    evs = []
    for head, jid, err, src in evs_head:
        if jid is None:
            evs.append(head + [{"ev": "Tii", "outcome": "build-failed: " + err[:80], "tx": "", "params": [], "parties": [], "environment": [],
                                "params_folded": [], "parties_folded": [], "environment_folded": [], "required": [], "tir_matches": False, "client": "na", "client_missing": []}])
        else:
            evs.append(head + results[jid].get("events", []))
    shutil.rmtree(work, ignore_errors=True)
    tr = core.tlc_trace("Trace_Build", evs, "c17", nproc=4)
    rep.add_trace(tr)
    rep.evaluations = len(cases)
    for b in tr.bad:
        c = cases[b["case"]]
        # a case-twin parameter is rejected nowhere and collapses by construction: identify it
        extra = "|case_twin" if c["extra"] == "case_twin_param" else ""
        rep.violation(sig_of(b) + extra, f"{b['why']} {b['detail']} case={c}", {"cmd": "tii", "case": c, "source": evs_head[b["case"]][3],
                                                                                 "why": b["why"], "detail": b["detail"]})
    canary17(rep, evs)
    rep.samples = [{"case": cases[0], "source": evs_head[0][3]}, {"trace_events": evs[0]}]
    return rep.finish()


def canary17(rep, evs):
    import copy
    a = None
    for e in evs:
        if len(e) > 1 and e[1].get("outcome") == "ok" and e[1]["required"]:
            a = copy.deepcopy(e)
            break
    if a is None:
        raise core.ToolError("canary: no interface produced")
    a[1]["required"] = a[1]["required"] + ["not_declared_anywhere"]
    tr = core.tlc_trace("Trace_Build", [a], "c17_canary", nproc=1)
    if not any(x["why"] == "required-not-declared" for x in tr.bad):
        raise core.ToolError(f"canary not rejected: binding broken ({tr.bad})")
    rep.extra["canary_rejected"] = True


def check_c18(tier, seed):
    rep = core.Report("C18", tier, seed)
    rep.rule = ("a case is a source program: every example of the repository, the C17 spelling programs and generated core programs that "
                "exercise containers whose order could leak (chain-specific directives with several fields, several parties / "
                "transactions, maps, multi-asset literals), programs with one mistake in them (C13 mutants: refused or built, the same every time), plus a revision of each source with other digits in every hex literal. Each is "
                "lowered and encoded 20 times in one driver process, again in another process, in a process that compiles the sources in "
                "the opposite order, alone in a fresh process, and built 3 times by the real tx3c; all digests of one artifact must be equal. "
                "non-trivial: the program has a directive with >= 2 fields or >= 2 transactions; distinct = distinct sources.")
    rep.assumptions = ["TLC 1.8, Json module", "detection of an order leak is probabilistic per program (k! orders, 26 draws) and near certain over the corpus",
                       "Blake2b digests computed by the driver / sha256 of the .tii bytes by the orchestrator"]
    core.build_driver()
    tx3c = core.build_tx3c()
    quick = tier == "quick"
    rng = random.Random(seed)
    sources = []
    for f in sorted(glob.glob(os.path.join(core.REPO, "examples", "*.tx3"))):
        sources.append((os.path.basename(f), open(f).read()))
    r = core.tlc_mc("MC_Tii", MCFG, "c18_mc", workers=4, timeout=600)
    rep.add_tlc(r)
    tcases = r.cases
    rng.shuffle(tcases)
    for i, c in enumerate(tcases[:40 if quick else 300]):
        sources.append((f"spelling{i}", source_for(c)))
    lang = langcheck.gen(rep, ["out_amount", "out_datum", "mint_amount", "meta_value", "min_amount", "signer"], 1, [1], "c18_lang", workers=6)
    rng.shuffle(lang)
    for i, c in enumerate(lang[:30 if quick else 250]):
        sources.append((f"core{i}", pp.sources(core.untlcify(c["prog"]), "t", seed + i)[0]))
    directives = """party Sender;
party Receiver;
tx multi(quantity: Int, b: Bytes) {
    input source { from: Sender, min_amount: Ada(quantity) + fees, }
    output { to: Receiver, amount: Ada(quantity), datum: {1: b, 2: 0x02, 3: 0x03,}, }
    cardano::withdrawal { from: Sender, amount: 0, redeemer: (), }
    cardano::plutus_witness { version: 3, script: 0xabcd, }
    cardano::native_witness { script: 0x8200581c00000000000000000000000000000000000000000000000000000000, }
    cardano::publish { to: Receiver, amount: Ada(2000000), version: 3, script: 0xabcdef, }
    cardano::treasury_donation { coin: 5, }
}
tx second(quantity: Int) { input source { from: Sender, min_amount: fees, } output { to: Sender, amount: source - fees, } }
"""
    sources.append(("directives", directives))
    # names that collide once the IR folds their case (every kind of named thing, from the C13 mutants), and a transaction
    # with three and four inputs two of which collide: whatever lowering does with a collision, it does it the same way each time
    from . import mutants
    wpm = mutants.whole_program_mutants()
    for meta_, src_ in wpm:
        if meta_["name"].startswith("case_twin_"):
            sources.append((meta_["name"], src_))
    # programs with a mistake in them (the C13 mutants): whether a source is refused or built, and what is built, must not
    # vary from run to run either
    rest = [(m["name"], s_) for m, s_ in wpm if not m["name"].startswith("case_twin_")]
    keep = [x for x in rest if x[0].startswith("implicit_ctor")]
    rest = [x for x in rest if not x[0].startswith("implicit_ctor")]
    rng.shuffle(rest)
    sources += [("mutant:" + n_, s_) for n_, s_ in keep + rest[:30 if quick else len(rest)]]
    rm = core.tlc_mc("MC_Mutants", mutants.MCFG.format(double="FALSE"), "c18_mut", workers=6, timeout=900)
    rep.add_tlc(rm)
    mcases = list(rm.cases)
    rng.shuffle(mcases)
    for i, c in enumerate(mcases[:40 if quick else 400]):
        sources.append((f"mutant:{c['name']}@{c['slot']}", pp.layout(pp.program_tokens(core.untlcify(c["prog"])), 0, seed + i)))
    sources.append(("case_twin_inputs3", "party Sender;\nparty Receiver;\ntx t(n: Int) {\n  input Vault { from: Sender, min_amount: Ada(n), }\n"
                    "  input vault { from: Receiver, min_amount: Ada(1), }\n  input gas { from: Sender, min_amount: fees, }\n"
                    "  output { to: Receiver, amount: Vault + vault + gas - fees, }\n}\n"))
    sources.append(("case_twin_inputs4", "party Sender;\nparty Receiver;\ntx t(n: Int) {\n  input a { from: Sender, min_amount: Ada(n), }\n"
                    "  input B { from: Receiver, min_amount: Ada(1), }\n  input b { from: Sender, min_amount: fees, }\n  input A { from: Sender, min_amount: Ada(2), }\n"
                    "  output { to: Receiver, amount: a + b - fees, }\n}\n"))
    # revisions: the same text with other digits in every hex literal (same positions, same lengths), so that state kept
    # from compiling one source in a process could be mistaken for the other's
    import re

    def revise(text):
        rot = str.maketrans("0123456789abcdefABCDEF", "123456789abcdef0BCDEF0")
        return re.sub(r"0x[0-9a-fA-F]+", lambda m: "0x" + m.group(0)[2:].translate(rot), text)
    twins = []
    for name, src in sources:
        if "0x" in src and (not quick or len(twins) < 25):
            twins.append((name + "~rev", revise(src)))
    sources += twins
    rep.extra["revised_twins"] = len(twins)
    rep.extra["sources"] = len(sources)
    work = os.path.join(core.OUT, "c18_work")
    shutil.rmtree(work, ignore_errors=True)
    os.makedirs(work)
    evs = []
    jobs = [{"id": i, "cmd": "build", "op": "lower_digests", "source": s, "reps": 20} for i, (n, s) in enumerate(sources)]
    first = core.run_driver(jobs)
    # three more runs under different histories: the same order in another process, the opposite order (a source now comes
    # after the ones it preceded, its revision included), and every source alone in a process of its own
    others = []
    jobs1 = [{"id": i, "cmd": "build", "op": "lower_digests", "source": s, "reps": 1} for i, (n, s) in enumerate(sources)]
    others.append(core.run_driver(jobs1))
    others.append(core.run_driver(list(reversed(jobs1))))
    alone = {}
    for j in jobs1:
        alone.update(core.run_driver([j]))
    others.append(alone)
    for i, (name, src) in enumerate(sources):
        e = []
        for x in first[i].get("events", []):
            e.append(dict(x, kind="tir"))
        for k, o in enumerate(others):
            for x in o[i].get("events", []):
                e.append(dict(x, where=f"process{k + 2}", kind="tir"))
        for k in range(3):
            tii, err = run_tx3c(tx3c, src, work, f"s{i}")
            e.append({"ev": "Built", "artifact": "tii-file", "where": f"tx3c run {k + 1}", "rep": k, "kind": "tii",
                      "digest": hashlib.sha256(tii).hexdigest() if tii is not None else "build-failed"})
        evs.append(e)
        if src.count("cardano::") >= 1 or src.count("tx ") >= 2:
            rep.distinct.add(core.digest(src))
    shutil.rmtree(work, ignore_errors=True)
    tr = core.tlc_trace("Trace_Build", evs, "c18", nproc=4)
    rep.add_trace(tr)
    rep.evaluations = len(sources) * 26
    for b in tr.bad:
        name, src = sources[b["case"]]
        rep.violation(sig_of(b), f"{b['why']} {b['detail']} program={name}", {"cmd": "build", "name": name, "source": src, "why": b["why"], "detail": b["detail"]})
    import copy
    a = copy.deepcopy(evs[0])
    a[-1]["digest"] = "00"
    trc = core.tlc_trace("Trace_Build", [a], "c18_canary", nproc=1)
    if not any(x["why"] == "nondeterministic" for x in trc.bad):
        raise core.ToolError("canary not rejected: binding broken")
    rep.extra["canary_rejected"] = True
    rep.samples = [{"program": sources[-1][0], "events": evs[-1][:3]}]
    return rep.finish()


def replay(doc):
    print(core.json.dumps(doc["replay"], indent=1)[:6000])
    return 1
