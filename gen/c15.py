"""C15 - multi-asset values obey the algebra that balance computations assume."""
import random

from . import core
from .core import I

MC_CFG = """CONSTANTS
  AmtMax = {amt}
  NPush = {npush}
  NDerived = {nder}
  EqImpl <- {eq}
  Emit = {emit}
  Focus = "{focus}"
INIT Init
NEXT Next
INVARIANTS RepRefinesAbs Commutative Associative SubIsAddNeg SubThenAdd NegInvolutive EqSemantic ContainsIsOrder EmitCase
CHECK_DEADLOCK FALSE
"""


def with_obs(ops):
    n = len(ops)
    return ops + [{"op": "obs", "i": i, "j": j} for i in range(1, n + 1) for j in range(1, n + 1)]


def rand_bytes(rng, maxlen=40):
    k = rng.choice([0, 0, 1, 2, 28, 28, 32, rng.randint(0, maxlen)])
    return [rng.randint(0, 255) for _ in range(k)]


BOUNDS = [0, 1, -1, 2, 2**31, -2**31, 2**63 - 1, 2**63, -2**63, 2**64 - 1, 2**64, -2**64,
          2**120, -2**120, 2**126, -2**126]


def rand_amount(rng):
    r = rng.random()
    if r < 0.55:
        return rng.choice(BOUNDS) + rng.choice([0, 0, 1, -1])
    if r < 0.9:
        return rng.randint(-2**125, 2**125)
    if r < 0.95:
        return rng.choice([2**127 - 1, -2**127, 2**127 - 2, -2**127 + 1])
    return rng.randint(-5, 5)


def random_case(rng):
    # a small pool of classes so that values overlap
    pols = [rand_bytes(rng) for _ in range(2)] + [[]]
    names = [rand_bytes(rng) for _ in range(2)] + [[]]
    if rng.random() < 0.3:
        # spliced classes: one byte string cut at different places, so that distinct classes share their
        # "policy followed by name" bytes (policies have no fixed length in the IR, and a named class has none)
        s = [rng.randint(0, 255) for _ in range(rng.randint(2, 6))]
        k1, k2 = rng.randint(1, len(s) - 1), rng.randint(0, len(s))
        pols = [s[:k1], s[:k2], []]
        names = [s[k1:], s[k2:], s]
    ops = []
    npush = rng.randint(2, 5)
    for _ in range(npush):
        k = rng.random()
        n = I(rand_amount(rng))
        if k < 0.15:
            ops.append({"op": "from_naked", "n": n})
        elif k < 0.3:
            ops.append({"op": "from_named", "name": rng.choice(names), "n": n})
        elif k < 0.6:
            ops.append({"op": "from_defined", "policy": rng.choice(pols), "name": rng.choice(names), "n": n})
        elif k < 0.8:
            def opt(b):
                return {"k": "none"} if rng.random() < 0.3 else {"k": "some", "v": b}
            ops.append({"op": "from_asset", "policy": opt(rng.choice(pols)), "name": opt(rng.choice(names)), "n": n})
        elif k < 0.95:
            p, nm = rng.choice(pols), rng.choice(names)
            cls = rng.choice([{"k": "naked"}, {"k": "named", "name": nm or [1]},
                              {"k": "defined", "policy": p or [2], "name": nm}])
            ops.append({"op": "from_class", "class": cls, "n": n})
        else:
            ops.append({"op": "empty"})
    for _ in range(rng.randint(1, 4)):
        m = len(ops)
        o = rng.choice(["add", "sub", "add", "sub", "neg", "roundtrip", "relist", "ir_sub3", "ir_addsub", "ir_subadd", "ir_negsub"])
        if o in ("ir_sub3", "ir_addsub", "ir_subadd"):
            i_ = rng.randint(1, m)
            ops.append({"op": o, "i": i_, "j": i_ if rng.random() < 0.4 else rng.randint(1, m), "k": rng.randint(1, m)})
        elif o in ("add", "sub", "relist", "ir_negsub"):
            ops.append({"op": o, "i": rng.randint(1, m), "j": rng.randint(1, m)})
        else:
            ops.append({"op": o, "i": rng.randint(1, m)})
    return ops


def nontrivial(result):
    for ev in result.get("events", []):
        res = ev.get("res", {})
        if ev["ev"] == "Op" and "keys" in res:
            if len(res["keys"]) != len(res["entries"]) or len(res["keys"]) >= 2:
                return True
    return False


def signature(b):
    d = b["detail"]
    if b["why"] == "panic":
        return f"panic|{d.get('op')}|{d.get('site')}|{d.get('msg')}"
    return f"{b['why']}|{d.get('op', '')}"


def check(tier, seed):
    rep = core.Report("C15", tier, seed)
    rep.rule = ("cases are operation sequences on the CanonicalAssets API: TLC enumerates every sequence of "
                "NPush constructor calls (all constructors x classes x amounts) followed by NDerived derived "
                "operations, a seeded random driver adds sequences with amounts across the i128 range and "
                "random policies/names; every case ends with all observers on all register pairs. A case is "
                "non-trivial when some register's representation holds a zero entry or has >= 2 classes; "
                "distinct = distinct op sequences.")
    rep.assumptions = ["TLC 1.8 and the CommunityModules Json reader", "BigInt.tla self-check (MC_BigInt)",
                       "tx3-driver projection of CanonicalAssets (iter over the map, sorted)",
                       "dev profile with overflow checks, as in the baseline test suite"]
    core.build_driver()
    quick = tier == "quick"
    # 1. exhaustive enumeration + design check
    amt, npush, nder = (1, 2, 1) if quick else (2, 2, 1)
    r = core.tlc_mc("MC_Assets", MC_CFG.format(amt=amt, npush=npush, nder=nder, eq="VEq", emit="TRUE", focus="all"),
                    "c15_mc", workers=4 if quick else 10, timeout=1500, coverage=True)
    rep.add_tlc(r)
    cases = [c["ops"] for c in r.cases]
    rep.extra["mc_cases"] = len(cases)
    rep.extra["mc_constants"] = {"AmtMax": amt, "NPush": npush, "NDerived": nder}
    rep.exhaustive = True
    # 1b. classes whose "policy ++ name" bytes coincide, with derivations two steps long: a value holding several of
    # them, then a conversion, a difference or a negation of it
    rsp = core.tlc_mc("MC_Assets", MC_CFG.format(amt=1, npush=2, nder=2, eq="VEq", emit="TRUE", focus="splice"),
                      "c15_splice", workers=4, timeout=600)
    rep.add_tlc(rsp)
    cases += [c["ops"] for c in rsp.cases]
    rep.extra["splice_cases"] = len(rsp.cases)
    # 1c. two-step computations folded by the IR reducer over the same classes (the intermediate result stays in the IR)
    rir = core.tlc_mc("MC_Assets", MC_CFG.format(amt=1, npush=2, nder=1, eq="VEq", emit="TRUE", focus="ir"),
                      "c15_ir", workers=4, timeout=600)
    rep.add_tlc(rir)
    cases += [c["ops"] for c in rir.cases]
    rep.extra["ir_chain_cases"] = len(rir.cases)
    # 2. design-level demonstration of the deviation (derived equality on the representation)
    rd = core.tlc_mc("MC_Assets", MC_CFG.format(amt=1, npush=2, nder=0, eq="RepEqDerived", emit="FALSE", focus="all"),
                     "c15_dev", workers=2, timeout=300, expect_violation=True)
    rep.add_tlc(rd)
    rep.notes.append(f"deviation EqOnRepresentation: TLC finds a counterexample to {rd.violated} on the model")
    if not quick:
        rs = core.tlc_mc("MC_Assets", MC_CFG.format(amt=2, npush=3, nder=2, eq="VEq", emit="TRUE", focus="all"),
                         "c15_sim", workers=8, timeout=240, simulate="num=12000", seed=seed)
        rep.add_tlc(rs)
        sim = [c["ops"] for c in rs.cases]
        rep.extra["simulated_cases"] = len(sim)
        cases += sim
        rep.exhaustive = False
    # 3. random large-scope sequences
    rng = random.Random(seed)
    nrand = 1500 if quick else 20000
    rcases = [random_case(rng) for _ in range(nrand)]
    rep.extra["random_cases"] = nrand
    allcases = [core.untlcify(c) for c in cases] + rcases
    # 4. execute on the real crate
    jobs = [{"id": i, "cmd": "assets", "ops": with_obs(ops)} for i, ops in enumerate(allcases)]
    results = core.run_driver(jobs)
    rep.evaluations = len(jobs)
    evs = []
    for i, ops in enumerate(allcases):
        res = results[i]
        if "events" not in res:
            rep.violation(f"abort|assets", f"driver outcome {res}", {"ops": ops, "outcome": res})
            evs.append([])
            continue
        evs.append(res["events"])
        if nontrivial(res):
            rep.distinct.add(core.digest(ops))
    # 5. TLC decides conformance
    tr = core.tlc_trace("Trace_Assets", evs, "c15", nproc=8 if quick else 12)
    rep.add_trace(tr)
    for b in tr.bad:
        ci = b["case"]
        rep.violation(signature(b), f"{b['why']} {b['detail']}",
                      {"cmd": "assets", "ops": allcases[ci], "bad_event_line": b["line"],
                       "why": b["why"], "detail": b["detail"]})
    # 6. canary: a corrupted observation must be rejected by the same trace spec
    canary(rep, evs)
    rep.samples = [{"ops": allcases[0]}, {"ops": allcases[len(cases) // 2]}, {"ops": rcases[0]},
                   {"trace_events_of_case_0": evs[0][:4]}]
    return rep.finish()


def canary(rep, evs):
    import copy
    src = None
    for e in evs:
        if any(ev["ev"] == "Op" and ev["res"].get("entries") for ev in e):
            src = copy.deepcopy(e)
            break
    if src is None:
        raise core.ToolError("canary: no usable case")
    for ev in src:
        if ev["ev"] == "Op" and ev["res"].get("entries"):
            n = int(ev["res"]["entries"][0]["n"]["I"])
            ev["res"]["entries"][0]["n"] = I(n + 1)
            break
    src2 = copy.deepcopy(evs[0])
    for ev in src2:
        if ev["ev"] == "Obs":
            ev["res"]["is_empty"] = not ev["res"]["is_empty"]
            break
    tr = core.tlc_trace("Trace_Assets", [src, src2], "c15_canary", nproc=1)
    cases_bad = {b["case"] for b in tr.bad}
    if cases_bad != {0, 1}:
        raise core.ToolError(f"canary not rejected: binding broken ({tr.bad})")
    rep.extra["canary_rejected"] = True


def replay(doc):
    core.build_driver()
    ops = doc["replay"]["ops"]
    res = core.run_driver([{"id": 0, "cmd": "assets", "ops": with_obs(ops)}])[0]
    tr = core.tlc_trace("Trace_Assets", [res.get("events", [])], "c15_replay", nproc=1)
    print(core.json.dumps({"events": res.get("events"), "bad": tr.bad}, indent=1))
    return 1 if tr.bad else 0
