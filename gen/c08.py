from .langcheck import check_c08 as check, replay  # noqa
