from .langcheck import check_c01 as check, replay  # noqa
