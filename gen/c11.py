"""C11 - the TIR wire format round-trips and rejects garbage gracefully."""
import copy
import random
import re

from . import core, terms
from .staging import env_for_driver

CFG = """CONSTANTS
  Depth = {depth}
INIT Init
NEXT Next
INVARIANTS RoundTrip Gate GarbageIsAnError EmitCase
CHECK_DEADLOCK FALSE
"""
VERSIONS = ["v1beta0", "v1alpha8", "v1alpha9", "v2", "", "V1BETA0", "v1beta0 "]


def muts_for(rng, n):
    out = []
    for _ in range(n):
        k = rng.random()
        if k < 0.45:
            out.append({"kind": "flip", "pos": rng.randint(0, 1 << 20)})
        elif k < 0.75:
            out.append({"kind": "trunc", "len": rng.randint(0, 400)})
        else:
            out.append({"kind": "splice", "at": rng.randint(0, 300), "del": rng.randint(0, 4),
                        "bytes": [rng.randint(0, 255) for _ in range(rng.randint(1, 9))]})
    return out


def bombs(rng, depth):
    b = [
        {"kind": "nest", "byte": 0x81, "depth": depth, "tail": [0]},                # arrays of arrays
        {"kind": "nest", "byte": 0x9f, "depth": depth, "tail": []},                 # indefinite arrays, unterminated
        {"kind": "nest2", "unit": [0xa1, 0x00], "depth": depth, "tail": [0]},       # maps of maps
        {"kind": "nest2", "unit": [0xc1], "depth": depth, "tail": [0]},             # tags of tags
        {"kind": "nest2", "unit": [0xd8, 0x18], "depth": depth, "tail": [0x40]},
        {"kind": "raw", "bytes": []},
        {"kind": "raw", "bytes": [0xff]},
        {"kind": "raw", "bytes": [0x9b, 0xff, 0xff, 0xff, 0xff, 0xff, 0xff, 0xff, 0xff]},   # array of 2^64-1 items
        {"kind": "raw", "bytes": [0xbb, 0x7f, 0xff, 0xff, 0xff, 0xff, 0xff, 0xff, 0xff]},   # map of 2^63 pairs
        {"kind": "raw", "bytes": [0x5b, 0x7f, 0xff, 0xff, 0xff, 0xff, 0xff, 0xff, 0xff]},   # bytes of 2^63
        {"kind": "raw", "bytes": [0x7b, 0x00, 0x00, 0x00, 0x01, 0x00, 0x00, 0x00, 0x00]},   # text of 2^32
    ]
    for _ in range(40):
        b.append({"kind": "raw", "bytes": [rng.randint(0, 255) for _ in range(rng.randint(1, 200))]})
    return b


def sig_of(b):
    d = b["detail"]
    if b["why"] == "panic":
        return f"panic|{d.get('op')}|{d.get('site')}|{d.get('msg')}"
    if b["why"] == "garbage":
        return f"garbage|{d.get('kind')}|{d.get('outcome')}"
    if b["why"] == "gate":
        return f"gate|{d.get('version')}|{d.get('outcome')}"
    return b["why"]


def check(tier, seed):
    rep = core.Report("C11", tier, seed)
    rep.rule = ("round-trip cases: every leaf variant of the IR (constant, boundary contents, unresolved) under 0..Depth "
                "wrappers (every node type x child position) in every transaction slot, enumerated by TLC (MC_Wire), plus seeded "
                "random depth-6 transactions and transactions with one long leaf (23..70001 bytes, characters or elements); each is encoded, decoded with the declared version, compared structurally, by "
                "find_params/find_queries and after identical application. garbage cases: seeded bit flips, truncations, "
                "splices of valid encodings, every length header of an encoding inflated in turn, nesting bombs and random bytes. non-trivial round trip: the term contains at least "
                "one non-leaf node; distinct = distinct terms / distinct byte strings.")
    rep.assumptions = ["TLC 1.8, Json module", "driver conversion tirj.rs; both sides of a round trip go through the same projection",
                       "strings are generated as valid UTF-8", "an abort (stack overflow) is observed as the death of the driver child"]
    core.build_driver()
    quick = tier == "quick"
    rng = random.Random(seed)
    res = core.tlc_mc("MC_Wire", CFG.format(depth=1 if quick else 2), "c11_mc", workers=6 if quick else 12,
                      timeout=3000, heap="12g")
    rep.add_tlc(res)
    env = res.info[0]["env"]
    denv = env_for_driver(env)
    cases = [core.untlcify(c["tx"]) for c in res.cases]
    if not quick and len(cases) > 120000:
        rng.shuffle(cases)
        cases = cases[:120000]
        rep.notes.append("depth-2 universe sampled down to 120000 terms")
    else:
        rep.exhaustive = True
    rep.extra["enumerated_terms"] = len(cases)
    nrand = 1500 if quick else 15000
    rcases = [terms.rtx(rng, 6) for _ in range(nrand)]
    # long leaves: lengths around every width of a CBOR length header and around decoder buffer sizes
    for n in terms.STRETCH:
        rcases += [terms.stretched_tx(rng, n) for _ in range(4 if quick else 20)]
    rep.extra["random_terms"] = nrand
    rep.extra["stretched_terms"] = len(rcases) - nrand
    allc = cases + rcases
    jobs = []
    nmut = 0
    for i, tx in enumerate(allc):
        j = {"id": i, "cmd": "wire", "tx": tx, "env": denv if i < len(cases) else None, "roundtrip": True}
        if i % 97 == 0:
            j["versions"] = VERSIONS
        k = 2 if quick else 4
        j["muts"] = muts_for(rng, k)
        nmut += k
        jobs.append(j)
    # structure-aware garbage: for three terms per leaf kind, every header of the encoding announces, one at a time, a
    # length that is not there (2^64-1, 2^62, 2^33); plus two seeded inflations on every other case
    per_kind = {}
    for i, tx in enumerate(cases):
        for kind in set(re.findall(r'"k":"([a-z_0-9]+)"', core.canon(tx))):
            if per_kind.setdefault(kind, 0) < 3 and not jobs[i].get("inflate_all"):
                per_kind[kind] += 1
                jobs[i]["inflate_all"] = True
    rep.extra["terms_with_every_header_inflated"] = sum(1 for j in jobs if j.get("inflate_all"))
    for j in jobs:
        if not j.get("inflate_all"):
            j["muts"] = j["muts"] + [{"kind": "inflate", "nth": rng.randint(0, 1 << 16), "count": rng.choice([2**64 - 1, 2**62, 2**40, 2**33])}
                                     for _ in range(2)]
            nmut += 2
    # hostile inputs, one per case so that an abort is attributed exactly
    base = allc[0]
    hostile = bombs(rng, 100000) + bombs(rng, 5000)[:5]
    for h in hostile:
        jobs.append({"id": len(jobs), "cmd": "wire", "tx": base, "roundtrip": False, "muts": [h]})
    nmut += len(hostile)
    rep.extra["garbage_inputs"] = nmut
    results = core.run_driver(jobs, case_timeout=30)
    rep.evaluations = len(jobs) + nmut
    evs = []
    for j in jobs:
        r = results[j["id"]]
        head = [{"ev": "Case", "tx": j["tx"], "strict": j["id"] < len(cases)}]
        if "events" not in r:
            kind = "timeout" if r.get("timeout") else "abort"
            mk = j.get("muts", [{}])[0].get("kind", "?")
            evs.append(head + [{"ev": "Garbage", "kind": mk, "outcome": kind, "len": 0}])
            continue
        evs.append(head + r["events"])
        if j["roundtrip"] and ('"a":' in core.canon(j["tx"]) or '"items": [{' in core.canon(j["tx"])):
            rep.distinct.add(core.digest(j["tx"]))
    tr = core.tlc_trace("Trace_Wire", evs, "c11", nproc=8 if quick else 12)
    rep.add_trace(tr)
    for b in tr.bad:
        if b["why"] == "projection":
            raise core.ToolError(f"harness inconsistency (build/projection): case {b['case']}")
        j = jobs[b["case"]]
        rep.violation(sig_of(b), f"{b['why']} {b['detail']}",
                      {"cmd": "wire", "tx": j["tx"], "muts": j.get("muts"), "versions": j.get("versions"),
                       "roundtrip": j["roundtrip"], "why": b["why"], "detail": b["detail"]})
    canary(rep, evs)
    rep.samples = [{"term": allc[5]}, {"random_term": rcases[0]}, {"mutations": jobs[0]["muts"]},
                   {"trace_events": [e for e in evs[0] if e["ev"] != "Case"][:3]}]
    return rep.finish()


def canary(rep, evs):
    a = copy.deepcopy(evs[0])
    for ev in a:
        if ev["ev"] == "RoundTrip":
            ev["after"]["fees"] = {"k": "number", "num": core.I(1)}
    b = copy.deepcopy(evs[0])
    b.append({"ev": "Garbage", "kind": "flip", "outcome": "abort", "len": 3})
    b.append({"ev": "VersionGate", "version": "v1alpha8", "outcome": "ok"})
    tr = core.tlc_trace("Trace_Wire", [a, b], "c11_canary", nproc=1)
    whys = {(x["case"], x["why"]) for x in tr.bad}
    if not ({(0, "roundtrip"), (1, "garbage"), (1, "gate")} <= whys):
        raise core.ToolError(f"canary not rejected: binding broken ({tr.bad[:4]})")
    rep.extra["canary_rejected"] = True


def replay(doc):
    core.build_driver()
    r = doc["replay"]
    job = {"id": 0, "cmd": "wire", "tx": r["tx"], "roundtrip": r.get("roundtrip", True),
           "muts": r.get("muts") or [], "versions": r.get("versions") or []}
    res = core.run_driver([job], case_timeout=30)[0]
    evs = [{"ev": "Case", "tx": r["tx"], "strict": False}] + res.get("events", [{"ev": "Garbage", "kind": "?", "outcome": "abort", "len": 0}])
    tr = core.tlc_trace("Trace_Wire", [evs], "c11_replay", nproc=1)
    print(core.json.dumps({"events": evs[1:], "bad": tr.bad}, indent=1)[:20000])
    return 1 if tr.bad else 0
