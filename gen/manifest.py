"""Generates MANIFEST.json from the table of implemented checks (single source of truth)."""
import json
import os

VERIF = os.path.dirname(os.path.dirname(os.path.abspath(__file__)))

BASELINE_OFF = ("cd /repo && cargo test --workspace --no-fail-fast --offline")

# id -> (technique, level text, level note, design ref)
CLAIMED = {
    "C15": ("TLC exhaustive enumeration of API op sequences (MC_Assets) replayed on CanonicalAssets + TLC trace validation (Trace_Assets) incl. random i128-range sequences",
            "TLC checks the abstract group laws and that the code's representation refines them on the bounded model, "
            "every enumerated operation sequence is executed on the real CanonicalAssets and every recorded execution "
            "(exhaustive and random large-scope) is validated event by event by TLC against AssetOps.",
            "Trusts TLC, the Json module, BigInt.tla (self-checked by MC_BigInt) and the driver's projection of the map; bounds: 3-4 classes, amounts -2..2 exhaustively, i128 range randomly.",
            "DESIGN.md section 5, C15"),
}

ALL = ["C%02d" % i for i in range(1, 21)]

NOT_YET = "check not built yet in this revision of /verif (planned: see DESIGN.md section 5); not claimed until its machinery exists and is quiet on the unchanged tree"


def main():
    checks = []
    for pid in ALL:
        if pid not in CLAIMED:
            continue
        tech, text, note, ref = CLAIMED[pid]
        checks.append({
            "property_id": pid,
            "quick_cmd": f"python3 run.py check {pid} --tier quick",
            "thorough_cmd": f"python3 run.py check {pid} --tier thorough",
            "evidence_file": f"/verif/evidence/{pid}.json",
            "replay_cmd_template": "python3 run.py replay {path}",
            "engine": "tlc+tx3-driver",
            "level_claimed": {"category": "model_checking", "text": text, "design_ref": ref},
            "level_note": note,
            "technique": tech,
        })
    m = {
        "version": 1,
        "setup_cmd": "python3 run.py setup",
        "hooks": {
            "guard": "tx3_verif",
            "enable": "RUSTFLAGS='--cfg tx3_verif' (set in /verif/harness/.cargo/config.toml); no hook commit exists, all observation goes through public APIs and trait seams",
            "baseline_off_cmd": BASELINE_OFF,
            "source_commits": [],
            "add_only": True,
        },
        "engines": [{
            "name": "tlc+tx3-driver",
            "path": "/verif/run.py",
            "serves_properties": sorted(CLAIMED),
            "kind_free_text": "TLA+ specification (spec/*.tla) checked by TLC; MC_* configs enumerate cases that are replayed on the real crates by harness/ (tx3-driver); Trace_* specs validate recorded executions",
        }],
        "checks": checks,
        "not_applicable": [{"property_id": p, "reason": NOT_YET} for p in ALL if p not in CLAIMED],
        "notes": "See DESIGN.md. known_findings.json lists recorded defects (matched by signature) and fixed ones.",
    }
    with open(os.path.join(VERIF, "MANIFEST.json"), "w") as f:
        json.dump(m, f, indent=1)
        f.write("\n")


if __name__ == "__main__":
    main()
