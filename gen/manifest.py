"""Generates MANIFEST.json from the table of implemented checks (single source of truth)."""
import json
import os

VERIF = os.path.dirname(os.path.dirname(os.path.abspath(__file__)))

BASELINE_OFF = ("cd /repo && cargo test --workspace --no-fail-fast --offline")

# id -> (technique, level text, level note, design ref)
CLAIMED = {
    "C15": ("TLC exhaustive enumeration of API op sequences (MC_Assets) replayed on CanonicalAssets + TLC trace validation (Trace_Assets) incl. random i128-range sequences",
            "TLC checks the abstract group laws and that the code's representation refines them on the bounded model, "
            "every enumerated operation sequence is executed on the real CanonicalAssets and every recorded execution "
            "(exhaustive and random large-scope) is validated event by event by TLC against AssetOps.",
            "Trusts TLC, the Json module, BigInt.tla (self-checked by MC_BigInt) and the driver's projection of the map; bounds: 3-4 classes, amounts -2..2 exhaustively, i128 range randomly.",
            "DESIGN.md section 5, C15"),
}

CLAIMED["C06"] = (
    "TLC enumeration of one-hole contexts (MC_Closure: every IR node type x child position x leaf kind x tx slot) replayed on find_params/find_queries/apply_*/reduce/resolve_tx + TLC trace validation (Trace_Staging)",
    "TLC checks on the model that the generic walk reaches every generated position and that full substitution closes the term; "
    "every generated template is run on the real crates and TLC validates the recorded Template/Refusals/Step/Final events: reported "
    "sets vs two independent walks, empty residual after applying everything in three orders, MissingTxArg refusal per parameter.",
    "Trusts TLC/Json, the driver's conversion tirj.rs (abstract term -> real tir::Tx) and its serde walk; bounds: wrapper depth 1 (quick) / 2 (thorough), 18 slots, 32 wrappers, 9 leaf kinds.",
    "DESIGN.md section 5, C06")
CLAIMED["C07"] = (
    "TLC exploration of the staging machine's schedule graph (MC_Staging) over the slot x expression matrix, each path replayed on apply_args/apply_inputs/apply_fees/Node::apply/reduce + TLC trace validation against Tir.Eval (Trace_Staging)",
    "TLC walks every order of the four stages allowed by operand availability with every placement of reduce, each complete path is "
    "executed on the real functions and TLC validates every recorded run: per-step idempotence of reduce, final values equal to the "
    "big-step meaning EvalTx(template, env), equal outcomes across all schedules of a template.",
    "Trusts TLC/Json, Tir.Eval as oracle on the typed universe only (Unspec elsewhere), the driver's projection; bounds: 17 slot kinds, expression depth 1-2, one fixed environment.",
    "DESIGN.md section 5, C07")

CLAIMED["C11"] = (
    "TLC enumeration of the IR term universe (MC_Wire: leaf variants x wrappers x slots) and of the Encode/Corrupt/Decode(version) machine, each term round-tripped through to_bytes/from_bytes + TLC trace validation (Trace_Wire) incl. random depth-6 terms and a seeded corruption campaign",
    "TLC checks round-trip identity and the version gate on the model; every enumerated term and seeded random terms are encoded and decoded by the real crate and TLC validates each recorded RoundTrip/Applied/VersionGate/Garbage event "
    "(structure, find_params/find_queries, identical application, gate outcome, outcome alphabet {ok, err} for hostile bytes).",
    "Trusts TLC/Json, the driver conversion (the same projection on both sides of a round trip), child-process isolation for aborts; the garbage half is an outcome-alphabet check only.",
    "DESIGN.md section 5, C11")

CLAIMED["C03"] = (
    "TLC model check of the selector machine (MC_Selector: every admissible window and pick over small stores; deviation TakeWithUnionFallback shown unsound) + TLC-enumerated stores x query shapes replayed on tx3_resolver::inputs::resolve through a recording UtxoStore + TLC trace validation (Trace_Selector) incl. random stores up to 130 UTxOs",
    "TLC checks Sound/Complete/Disjoint on the model for every admissible selector and finds the counterexample for the code's former union fallback; every enumerated (store, query) and seeded random large stores are resolved by the real resolver "
    "several times and TLC validates each recorded Fetch/Resolved/NotResolved/Error event against the selection contract (soundness of every bound set, completeness of every refusal, window within the candidates).",
    "Trusts TLC/Json and the driver's in-memory recording store; bounds: <=3 UTxOs, 2 addresses, 3 classes exhaustively; random: <=130 UTxOs, amounts <= 2^62; completeness relative to the fetched window beyond 50 candidates, multi-ref queries soundness only.",
    "DESIGN.md section 5, C03")
CLAIMED["C04"] = (
    "TLC model check of Disjoint/IgnoreMonotone on the selector machine (MC_Selector, overlapping blocks) + enumerated stores x overlapping block tuples replayed on inputs::resolve and resolve_tx (recording store and compiler, decoded body inputs) + TLC trace validation (Trace_Selector)",
    "TLC checks pairwise disjointness and monotone ignore sets on the model; every enumerated case and seeded random multi-block cases run through the real resolver and end to end through resolve_tx, and TLC validates the recorded events: "
    "no overlap between non-collateral blocks, windows exclude what earlier blocks took, decoded body inputs are duplicate-free and equal the union of the bound sets.",
    "Trusts TLC/Json, the recording seams and the driver's CBOR reader; bounds: 2 (quick) / 3 (thorough) overlapping blocks over <=3 UTxOs exhaustively, 1..4 blocks over <=130 UTxOs randomly.",
    "DESIGN.md section 5, C04")

CLAIMED["C05"] = (
    "TLC model check of the resolve loop with a CBOR-width size model (MC_ResolveLoop: FixedPoint holds without, fails with the ReturnAtCap deviation) + dense sweeps of store amounts around every width boundary x protocol parameters replayed on resolve_tx through a recording compiler + TLC trace validation (Trace_ResolveLoop)",
    "TLC explores the loop on the width model and exhibits the non-convergence; the real resolve_tx is run on transfer-shaped templates with totals swept across the 24/2^8/2^16/2^32 boundaries for several pparams, and TLC validates every recorded Round/MinUtxo/Result: "
    "round r is built with the fee reported by round r-1, the reported fee is a*len+b+margin, fee-dependent outputs are computed with the body fee, the result is the last round and a fixed point.",
    "Trusts TLC/Json, the recording Compiler wrapper and the driver's CBOR reader; template family: transfer with/without fees in min_amount and with min_utxo; non-convergent cases are a recorded finding (deviation:ReturnAtCap).",
    "DESIGN.md section 5, C05")
CLAIMED["C20"] = (
    "TLC model check of the two-instance product with compiler memory (MC_ResolveLoop: HistoryIndependent holds without, fails with the StaleMem deviation) + TLC-enumerated histories x targets (MC_History) replayed on one shared and one fresh tx3_cardano::Compiler + TLC trace validation (Trace_ResolveLoop)",
    "TLC shows on the model that a remembered body makes the outcome history dependent and that forgetting it at the start of a resolution removes the dependence; every history of 0..2 (quick) / 0..3 (+ sampled 4) earlier resolutions followed by every target runs on a shared "
    "instance and the target on a fresh one, and TLC validates that outcomes (payload digest, fee, error kind) agree and that no min_utxo evaluation reads a body of an earlier transaction.",
    "Trusts TLC/Json and the recording Compiler wrapper (it forwards Compiler::reset); 7 history templates (0..5 outputs, with/without min_utxo, one failing), 5 targets, 2 stores.",
    "DESIGN.md section 5, C20")

CLAIMED["C01"] = (
    "TLC-enumerated slot x expression matrix of core programs (MC_Lang) printed in three layouts, run through parse/analyse/lower/apply/reduce/compile, decoded by an independent CBOR reader + TLC trace validation against the big-step denotation DenoteTx (Trace_Lang)",
    "TLC enumerates programs and checks that the denotation is defined for each; every program x environment x layout goes through the real pipeline and TLC compares the decoded payload with DenoteTx field by field "
    "(inputs, outputs in order with address/lovelace/assets/datum, mint, validity, signers, references, collateral, metadata, fee, network) and the payloads of the three layouts with each other.",
    "Trusts TLC/Json, the pretty-printer gen/pp.py, the driver's CBOR reader; denotation fixed by DESIGN 9b; bounds: one varied slot at a time (18 slots), expression depth <= 2, 2-3 environments.",
    "DESIGN.md section 5, C01")
CLAIMED["C02"] = (
    "TLC-enumerated boundary matrix (MC_Lang b_* slots: ledger field x expression shape x boundary value, exact values by BigInt.tla) run through the whole pipeline + TLC trace validation against DenoteTx with field ranges (Trace_Lang)",
    "For every numeric ledger field and every expression shape producing it, the parameter takes each boundary value (0, +-1, +-2^31.., +-2^63, +-2^64, i128 extremes); TLC computes the exact value and whether the field can hold it, and validates that the real pipeline "
    "emits exactly that value or fails; balanced templates (change = input - send - fees, with mint / burn) are included so that value preservation follows from field equality; every case runs a second time with its integer arguments arriving as JSON number literals through the service's own coercion.",
    "Trusts TLC/Json/BigInt.tla (self-checked); dev profile (overflow checks on); three recorded findings for output amounts pinned by the baseline suite.",
    "DESIGN.md section 5, C02")

CLAIMED["C08"] = (
    "TLC enumeration of every relative order of input references, policy ids and reward accounts (MC_Ledger c08) run through the whole pipeline + TLC trace validation of the decoded redeemer map against the ledger's canonical orderings in DenoteTx (Trace_Lang)",
    "TLC assigns UTxO references injectively from 3 txids x 3 indices to 2 (quick) / 3 (thorough) script inputs (one optionally multi-UTxO), with 0..3 mint/burn blocks over three policies and 0..2 withdrawals, so that source order, name order and ledger order all differ; "
    "the real pipeline compiles each and TLC compares the decoded (tag, index) -> data map with the one obtained by sorting inputs by (txid bytes, index), policies and accounts by bytes.",
    "Trusts TLC/Json, the driver's CBOR / Plutus Data reader; withdrawals from stake addresses only; spend / mint / reward tags (what the language can write).",
    "DESIGN.md section 5, C08")
CLAIMED["C09"] = (
    "TLC-enumerated Plutus Data matrix (MC_Ledger c09: constructor index 0..139 x field count 0..6 x field type) with boundary integers and byte lengths, compiled by the real pipeline, parsed by an independent Plutus Data reader + TLC trace validation against PlutusData.Enc and the standard framing (Trace_Lang)",
    "For every constructor index of a 140-case variant, field counts 0..6 and field types Int/Bytes/Bool/record/list/map, in datum and redeemer position, with integers across the i128 range and byte strings of 0..100 bytes, TLC compares the tree recovered by the driver's own reader with Enc(value) "
    "and checks the framing (tags 121-127 / 1280-1400 / 102, CBOR int vs bignum, minimal bignum).",
    "Trusts TLC/Json/BigInt.tla and the driver's reader written from the Plutus Data CDDL; definite vs indefinite list framing is not judged.",
    "DESIGN.md section 5, C09")
CLAIMED["C10"] = (
    "TLC-enumerated block-presence lattice (MC_Ledger c10) x network x cost models compiled three times in one process and once in a second process, decoded by pallas and by an independent CBOR reader + TLC trace validation of Ledger.WellFormedReason and of payload equality (Trace_Lang)",
    "For every subset of 12 (quick) / 17 (thorough, sampled) optional blocks TLC validates on the decoded payload: a standard decoder accepts it, the reported hash is the Blake2b-256 of the raw body bytes, aux and script-data hashes are present exactly when needed and equal recomputed digests, "
    "no empty or duplicate entry in any set/map field, no zero mint, network id as configured, and the payloads of all layouts and of a second process are byte-identical.",
    "Trusts TLC/Json, pallas' decoder and Blake2b, the driver's CBOR reader; script-data hash recomputed independently for V2/V3 language views.",
    "DESIGN.md section 5, C10")

CLAIMED["C12"] = (
    "TLC sentence enumeration over Grammar.tla (generated from tx3.pest by gen/pest2tla.py) from `program` and from every major non-terminal, hostile-lexeme substitution, seeded token mutations of the examples, nesting to depth 64, run through parse_string + analyze in an isolated child + TLC trace validation of the outcome alphabet (Trace_Frontend)",
    "TLC enumerates every sentence up to N tokens of the grammar file itself; each is realised with resolvable / unresolvable identifiers and hostile literals, parsed and analysed by the real front end, and TLC validates that every recorded stage outcome is one the Frontend spec has an action for (ok / err); "
    "a panic, abort or 30 s timeout has none.",
    "The spec does not predict accept vs reject (that would re-implement pest): its role is the systematic generator and the outcome alphabet. Repetitions bounded to 2; depth and token bounds per non-terminal are in gen/frontend.py.",
    "DESIGN.md section 5, C12")
CLAIMED["C13"] = (
    "TLC-enumerated semantic mutants (MC_Mutants: 47 mutation operators x 12 expression slots, double mutants in the thorough tier) plus whole-program mutants, run through analyze / lower / Workspace::lower + TLC trace validation of the stage contract (Trace_Frontend)",
    "Every mutant is parsed, analysed, every tx lowered and the facade run; TLC validates Frontend.LowerContract on the recorded events (no analysis error implies every lowering succeeds) and that no stage panics. 26 analyzer gaps are recorded findings, identified by mutation operator and lowering error.",
    "Trusts TLC/Json and the pretty-printer; mutants the parser rejects only exercise the outcome alphabet.",
    "DESIGN.md section 5, C13")
CLAIMED["C19"] = (
    "the C12 and C13 generators laid out over one / several / many lines with multi-byte characters + TLC trace validation of Frontend.ParseDiagOK / AnalyzeDiagOK on every recorded diagnostic (Trace_Frontend)",
    "For every generated source that fails to parse or analyse, the driver reports the span facts of each diagnostic (carried text length, start, end, character-boundary flags, located text, name) and whether miette renders it; TLC validates that each lies inside the text it carries and that name-resolution "
    "diagnostics locate exactly the name they report.",
    "Trusts TLC/Json; spans are read from the public fields / span() accessors; rendering through miette::Report's Debug output.",
    "DESIGN.md section 5, C19")

CLAIMED["C14"] = (
    "TLC-enumerated boundary matrix (MC_Backend: default row, every single and pairwise deviation over 10 environment factors) x templates from MC_Lang, MC_Closure and a seeded random IR generator, run through apply/reduce/compile and resolve_tx in an isolated child + TLC trace validation of the outcome alphabet (Trace_Backend)",
    "TLC enumerates the rows of the matrix (integer class, byte length, address kind, UTxO contents, store, cost models, fee parameters, fee, network, compiler history); each template is resolved in every single-deviation row and sampled pairs, and TLC validates that every recorded stage outcome is ok or err - "
    "a panic, abort or timeout has no action in the Backend spec.",
    "The spec's role is the matrix and the outcome alphabet; trusts TLC/Json and child-process isolation (20 s timeout per case).",
    "DESIGN.md section 5, C14")

CLAIMED["C16"] = (
    "TLC-enumerated coercion table (MC_Interop forms: type x value class x admissible form, type x ill-formed shape) and request matrix (all placements of declared parameters in args / env x extras x envelope variants), realised as JSON, run through interop::from_json and trp::parse_resolve_request + TLC trace validation (Trace_Interop)",
    "TLC decides for every (type, form, value) whether the form is admissible (incl. the 64-bit limit of JSON numbers, by BigInt) and which keys a request must yield; the real functions are run on the realised JSON and TLC validates: admissible forms are inverted exactly, ill-formed shapes are rejected, "
    "a request yields exactly the declared parameters supplied under either map with the right values, a bad envelope is an error, nothing panics (also on seeded random JSON).",
    "Trusts TLC/Json/BigInt.tla; the textual codecs (hex, base64, bech32) of the realisation step are not specified.",
    "DESIGN.md section 5, C16")

CLAIMED["C17"] = (
    "TLC-enumerated identifier spellings and usage patterns (MC_Tii) built by the real tx3c binary (`build --emit tii`), interface read back and related to the decoded embedded IR + TLC trace validation of the name relation (Trace_Build / Tii.tla)",
    "For every spelling of parameter, party and environment names (lower, Capitalised, UPPER, mixed), used or unused by the body, with unused / case-colliding parameters, a second party or a constructor policy, TLC validates on the artifacts of the real compiler CLI: "
    "every key the embedded IR requires is declared under exactly that spelling, declared names do not collapse, the IR requires exactly as many keys as the body uses names, the embedded IR equals the in-process lowering, and a client that sends everything the file declares through parse_resolve_request gets every required key served.",
    "Trusts TLC/Json, the tx3c build from /repo's working tree, the driver's to_lowercase for the collapse check; one recorded finding (parameters differing only in case).",
    "DESIGN.md section 5, C17")
CLAIMED["C18"] = (
    "history monitor over build artifacts (Build.tla / Trace_Build): every example, spelling program (MC_Tii), generated core program (MC_Lang) and mutant (MC_Mutants; refused or built is an artifact too) lowered and encoded 20x in one process, in 3 more processes, on one Workspace before and after apply_args, and built 3x by the real tx3c; TLC validates that all digests of one artifact agree",
    "TLC checks on the recorded history that every Built event of an artifact (TIR bytes of each tx, the .tii file) of one source carries one digest, across repetitions in a process, across fresh driver processes and across runs of the tx3c binary.",
    "Detection of an order leak is probabilistic per program (26 draws) and near certain over the corpus; digests by Blake2b (driver) / sha256 (orchestrator).",
    "DESIGN.md section 5, C18")

ALL = ["C%02d" % i for i in range(1, 21)]

NOT_YET = "check not built yet in this revision of /verif (planned: see DESIGN.md section 5); not claimed until its machinery exists and is quiet on the unchanged tree"


def main():
    checks = []
    for pid in ALL:
        if pid not in CLAIMED:
            continue
        tech, text, note, ref = CLAIMED[pid]
        checks.append({
            "property_id": pid,
            "quick_cmd": f"python3 run.py check {pid} --tier quick",
            "thorough_cmd": f"python3 run.py check {pid} --tier thorough",
            "evidence_file": f"/verif/evidence/{pid}.json",
            "replay_cmd_template": "python3 run.py replay {path}",
            "engine": "tlc+tx3-driver",
            "level_claimed": {"category": "model_checking", "text": text, "design_ref": ref},
            "level_note": note,
            "technique": tech,
        })
    m = {
        "version": 1,
        "setup_cmd": "python3 run.py setup",
        "hooks": {
            "guard": "tx3_verif",
            "enable": "RUSTFLAGS='--cfg tx3_verif' (set in /verif/harness/.cargo/config.toml); no hook commit exists, all observation goes through public APIs and trait seams",
            "baseline_off_cmd": BASELINE_OFF,
            "source_commits": [],
            "add_only": True,
        },
        "engines": [{
            "name": "tlc+tx3-driver",
            "path": "/verif/run.py",
            "serves_properties": sorted(CLAIMED),
            "kind_free_text": "TLA+ specification (spec/*.tla) checked by TLC; MC_* configs enumerate cases that are replayed on the real crates by harness/ (tx3-driver); Trace_* specs validate recorded executions",
        }],
        "checks": checks,
        "not_applicable": [{"property_id": p, "reason": NOT_YET} for p in ALL if p not in CLAIMED],
        "notes": "See DESIGN.md. known_findings.json lists recorded defects (matched by signature) and fixed ones.",
    }
    with open(os.path.join(VERIF, "MANIFEST.json"), "w") as f:
        json.dump(m, f, indent=1)
        f.write("\n")


if __name__ == "__main__":
    main()
