#!/usr/bin/env python3
"""Orchestrator of the tx3 verification checks.

  run.py setup                         build the harness, parse every spec
  run.py check <ID> [--tier quick|thorough]
  run.py replay <path>

Exit status: 0 property held on everything explored (KNOWN-FINDING lines may be printed),
1 with `VIOLATION property=<id> replay=<path>` lines, 2 tool error / timeout.
"""
import argparse
import importlib
import json
import os
import subprocess
import sys
import traceback

sys.path.insert(0, os.path.dirname(os.path.abspath(__file__)))
from gen import core  # noqa: E402

CHECKS = {
    "C01": "gen.c01",
    "C02": "gen.c02",
    "C03": "gen.c03",
    "C04": "gen.c04",
    "C05": "gen.c05",
    "C06": "gen.c06",
    "C07": "gen.c07",
    "C08": "gen.c08",
    "C09": "gen.c09",
    "C10": "gen.c10",
    "C11": "gen.c11",
    "C12": "gen.c12",
    "C13": "gen.c13",
    "C14": "gen.c14",
    "C15": "gen.c15",
    "C16": "gen.c16",
    "C17": "gen.c17",
    "C18": "gen.c18",
    "C19": "gen.c19",
    "C20": "gen.c20",
}


def setup():
    core.build_driver()
    # parse every specification module
    bad = 0
    for sub in ("", "mc", "trace"):
        d = os.path.join(core.SPEC, sub)
        for f in sorted(os.listdir(d)):
            if f.endswith(".tla"):
                p = subprocess.run(
                    ["java", "-cp", "/opt/veriftools/tla/tla2tools.jar:/opt/veriftools/tla/CommunityModules-deps.jar",
                     f"-DTLA-Library={core.TLA_LIB}", "tla2sany.SANY", os.path.join(d, f)],
                    cwd=core.SPEC, stdout=subprocess.PIPE, stderr=subprocess.STDOUT, text=True)
                ok = p.returncode == 0 and "rror" not in p.stdout
                print(f"[sany] {sub}/{f}: {'ok' if ok else 'FAILED'}")
                if not ok:
                    print(p.stdout[-2000:])
                    bad += 1
    return 2 if bad else 0


def main():
    ap = argparse.ArgumentParser()
    sub = ap.add_subparsers(dest="cmd", required=True)
    sub.add_parser("setup")
    c = sub.add_parser("check")
    c.add_argument("pid")
    c.add_argument("--tier", default="quick", choices=["quick", "thorough"])
    r = sub.add_parser("replay")
    r.add_argument("path")
    a = ap.parse_args()
    try:
        if a.cmd == "setup":
            return setup()
        if a.cmd == "check":
            tier = os.environ.get("VERIF_TIER") or a.tier
            seed = int(os.environ.get("VERIF_SEED", "20260927"))
            mod = importlib.import_module(CHECKS[a.pid])
            return mod.check(tier, seed)
        if a.cmd == "replay":
            with open(a.path) as f:
                doc = json.load(f)
            mod = importlib.import_module(CHECKS[doc["property"]])
            return mod.replay(doc)
    except core.ToolError as e:
        print(f"TOOL-ERROR: {e}", file=sys.stderr)
        return 2
    except Exception:
        traceback.print_exc()
        return 2


if __name__ == "__main__":
    sys.exit(main())
